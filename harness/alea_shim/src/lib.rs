//! Environment stub for `alea` (DESIGN.md §2.3): the thread-local RNG seeded from the clock is outside any
//! solver, so randomness becomes a universally quantified input. Each draw is the next element of a
//! stream of harness inputs (`in_f64(RNG_BASE + cursor)` / `in_u64(..)`), constrained only by alea's
//! documented contract:
//!   f64()                in [0, 1)
//!   u64()                any u64
//!   i64_in_range(a, b)   keeps alea's `assert!(max > min)`, returns any value in [a, b]
//! (alea's own uniformity is assumed, not checked). Natively the stream is replayed from a table.
#[cfg(kani)]
extern "C" {
    fn __CPROVER_uninterpreted_in_f64(k: u32) -> f64;
    fn __CPROVER_uninterpreted_in_u64(k: u32) -> u64;
}

/// first input index used for RNG draws
pub const RNG_BASE: u32 = 300;

#[cfg(kani)]
static mut CUR: u32 = 0;

#[cfg(not(kani))]
mod native {
    use std::cell::{Cell, RefCell};
    use std::collections::HashMap;
    thread_local! {
        pub static CUR: Cell<u32> = Cell::new(0);
        pub static F: RefCell<HashMap<u32, u64>> = RefCell::new(HashMap::new());
        pub static U: RefCell<HashMap<u32, u64>> = RefCell::new(HashMap::new());
    }
}

/// number of draws consumed so far
pub fn shim_cursor() -> u32 {
    #[cfg(kani)]
    unsafe {
        CUR
    }
    #[cfg(not(kani))]
    {
        native::CUR.with(|c| c.get())
    }
}
/// rewind the stream (two objects can then be fed identical draws)
pub fn shim_set_cursor(k: u32) {
    #[cfg(kani)]
    unsafe {
        CUR = k;
    }
    #[cfg(not(kani))]
    {
        native::CUR.with(|c| c.set(k));
    }
}
#[cfg(not(kani))]
pub fn shim_load(kind: char, k: u32, bits: u64) {
    match kind {
        'f' => native::F.with(|m| {
            m.borrow_mut().insert(k, bits);
        }),
        _ => native::U.with(|m| {
            m.borrow_mut().insert(k, bits);
        }),
    }
}
fn next() -> u32 {
    let k = shim_cursor();
    shim_set_cursor(k + 1);
    RNG_BASE + k
}
fn raw_f64(k: u32) -> f64 {
    #[cfg(kani)]
    unsafe {
        __CPROVER_uninterpreted_in_f64(k)
    }
    #[cfg(not(kani))]
    {
        native::F.with(|m| m.borrow().get(&k).map(|b| f64::from_bits(*b)).unwrap_or(0.5))
    }
}
fn raw_u64(k: u32) -> Option<u64> {
    #[cfg(kani)]
    unsafe {
        Some(__CPROVER_uninterpreted_in_u64(k))
    }
    #[cfg(not(kani))]
    {
        native::U.with(|m| m.borrow().get(&k).copied())
    }
}
fn contract(_c: bool, _what: &str) {
    #[cfg(kani)]
    kani::assume(_c);
    #[cfg(not(kani))]
    if !_c {
        panic!("VH-ASSUME: RNG contract not met by the replayed value: {}", _what);
    }
}

/// the value the k-th draw (0-based) produces / produced
pub fn shim_peek_f64(k: u32) -> f64 {
    raw_f64(RNG_BASE + k)
}
pub fn shim_peek_u64(k: u32) -> u64 {
    raw_u64(RNG_BASE + k).unwrap_or(0)
}

pub fn f64() -> f64 {
    let v = raw_f64(next());
    contract(v >= 0.0 && v < 1.0, "f64() in [0,1)");
    v
}
pub fn u64() -> u64 {
    raw_u64(next()).unwrap_or(0x9E37_79B9_7F4A_7C15)
}
pub fn i64_in_range(min: i64, max: i64) -> i64 {
    assert!(max > min, "max must be greater than min");
    let r = match raw_u64(next()) {
        Some(v) => v as i64,
        None => min,
    };
    contract(min <= r && r <= max, "i64_in_range(min, max) in [min, max]");
    // For small ranges return the same value written as a selection among the concrete candidates
    // (`r` itself, only in a form the symbolic executor can fold through later int<->float conversions).
    #[cfg(kani)]
    if max - min <= 16 {
        let mut out = min;
        let mut v = min;
        while v <= max {
            if r == v {
                out = v;
            }
            v += 1;
        }
        return out;
    }
    r
}
pub fn set_seed(_seed: u64) {}
pub fn get_seed() -> u64 {
    0
}
