//! Stubs applied to every harness (see DESIGN.md §2.3).

/// Replacement for `compute::linalg::is_square`, whose `(len as f32).sqrt() % 1.` CBMC cannot
/// constant-fold. Equivalence with the real function is checked by harness `c15_is_square_stub`.
pub fn is_square(m: &[f64]) -> Result<usize, String> {
    let len = m.len();
    let mut n = 0usize;
    while n * n < len {
        n += 1;
    }
    if n * n == len {
        Ok(n)
    } else {
        Err(String::new())
    }
}

/// Contract stub for `compute::linalg::solve` (harnesses declared with `harness_s!`): the result is a
/// fresh symbolic vector x constrained only by A x = b, i.e. `solve` is replaced by what property C01
/// establishes about it (decided there for orders 1 and 2 per route; for a singular A the path is
/// infeasible, so obligations hold vacuously there - the harnesses using it keep A nonsingular).
/// The compositional claim "fit step correct given a correct linear solver" is stated in the
/// obligations that use it. Natively (replays) the real `solve` runs.
static mut SOLVE_CALLS: u32 = 0;
pub fn solve_contract(a: &[f64], b: &[f64]) -> Vec<f64> {
    let n = b.len();
    // every call gets its own block of four fresh inputs (orders <= 4, at most 8 calls per harness)
    let base = unsafe {
        let c = SOLVE_CALLS;
        SOLVE_CALLS = c + 1;
        480 + 4 * c
    };
    let mut x = vec![0.0; n];
    let mut i = 0;
    while i < n {
        x[i] = crate::rt::inp::f64(base + i as u32);
        i += 1;
    }
    let mut i = 0;
    while i < n {
        let mut s = 0.0;
        let mut j = 0;
        while j < n {
            s += a[i * n + j] * x[j];
            j += 1;
        }
        crate::rt::assume(s == b[i], "solve contract: A x = b");
        i += 1;
    }
    x
}

/// Contract stub for `compute::linalg::invert_matrix` (harness_s!): a fresh symbolic n x n matrix X with
/// A X = I (what C01 establishes about `invert_matrix` at orders 1 and 2). Inputs 440.. (orders <= 2, one call).
pub fn invert_contract(a: &[f64]) -> Vec<f64> {
    let n = is_square(a).unwrap();
    let mut x = vec![0.0; n * n];
    let mut i = 0;
    while i < n * n {
        x[i] = crate::rt::inp::f64(440 + i as u32);
        i += 1;
    }
    let mut i = 0;
    while i < n {
        let mut j = 0;
        while j < n {
            let mut s = 0.0;
            let mut k = 0;
            while k < n {
                s += a[i * n + k] * x[k * n + j];
                k += 1;
            }
            crate::rt::assume(s == if i == j { 1.0 } else { 0.0 }, "invert_matrix contract: A X = I");
            j += 1;
        }
        i += 1;
    }
    x
}
