//! Stubs applied to every harness (see DESIGN.md §2.3).

/// Replacement for `compute::linalg::is_square`, whose `(len as f32).sqrt() % 1.` CBMC cannot
/// constant-fold. Equivalence with the real function is checked by harness `c15_is_square_stub`.
pub fn is_square(m: &[f64]) -> Result<usize, String> {
    let len = m.len();
    let mut n = 0usize;
    while n * n < len {
        n += 1;
    }
    if n * n == len {
        Ok(n)
    } else {
        Err(String::new())
    }
}
