//! C18 Distributions are a pure function of current parameters and the RNG seed.
//! One inductive step per mutation: from an object constructed with arbitrary valid parameters (by the
//! property itself every reachable object is observationally such an object), apply one setter / bulk
//! update and compare with a freshly constructed twin; two-step instances guard the induction hypothesis.
use crate::rt::inp;
use crate::{harness, harness_g, vassert, vassume, vbits, vclose, vmustpanic};
use compute::distributions::*;

fn same(a: f64, b: f64, what: &'static str) {
    vclose!(a, b, 1e-12 * (1.0 + b.abs()), "{}", what);
}
fn pr(k: u32, lo: f64, hi: f64) -> f64 {
    let v = inp::f64(k);
    vassume!(v >= lo && v <= hi);
    v
}
/// observational equality of two continuous distributions at a symbolic point, plus one sample from
/// the same recorded RNG stream when `sample` is set
macro_rules! twin_c {
    ($a:expr, $b:expr, $sample:expr) => {{
        let x = pr(90, -1.0e3, 1.0e3);
        same($a.pdf(x), $b.pdf(x), "pdf");
        same($a.mean(), $b.mean(), "mean");
        same($a.var(), $b.var(), "variance");
        if $sample {
            alea::shim_set_cursor(0);
            let s1 = $a.sample();
            let used = alea::shim_cursor();
            alea::shim_set_cursor(0);
            let s2 = $b.sample();
            vassert!(alea::shim_cursor() == used, "samplers consumed different numbers of draws");
            same(s1, s2, "sample from the same stream");
        }
    }};
}
macro_rules! twin_d {
    ($a:expr, $b:expr, $sample:expr) => {{
        let k = inp::i64(90);
        vassume!(k >= -1000 && k <= 1000);
        same($a.pmf(k), $b.pmf(k), "pmf");
        same($a.mean(), $b.mean(), "mean");
        same($a.var(), $b.var(), "variance");
        if $sample {
            alea::shim_set_cursor(0);
            let s1 = $a.sample();
            let used = alea::shim_cursor();
            alea::shim_set_cursor(0);
            let s2 = $b.sample();
            vassert!(alea::shim_cursor() == used, "samplers consumed different numbers of draws");
            same(s1, s2, "sample from the same stream");
        }
    }};
}

// @bound c18_: every valid parameter value (ranges as in C02) before and after the mutation; setter, bulk update and setter-after-update; density / mass at a symbolic point, mean, variance, and for the closed-form samplers one draw from the same recorded RNG stream
// @claim c18_: after the mutation the object is observationally identical to a freshly constructed one; constructors and setters consume no RNG draws
harness_g!(name=c18_normal, prop=C18, mode=R, kind=normal, tier=quick, unwind=8, {
    let (m0, s0, m1, s1) = (pr(0, -1.0e3, 1.0e3), pr(1, 0.0, 1.0e3), pr(2, -1.0e3, 1.0e3), pr(3, 1.0e-3, 1.0e3));
    alea::shim_set_cursor(0);
    let mut d = Normal::new(m0, s0);
    d.set_mu(m1).set_sigma(s1);
    let mut e = Normal::new(m0, s0);
    e.update(&[m1, s1]);
    vassert!(alea::shim_cursor() == 0, "constructor / setters consumed RNG draws");
    let f = Normal::new(m1, s1);
    twin_c!(d, f, false);
    twin_c!(e, f, false);
});
harness_g!(name=c18_gamma, prop=C18, mode=R, kind=normal, tier=quick, unwind=8, {
    let (a0, b0, a1, b1) = (pr(0, 1.0e-3, 1.0e3), pr(1, 1.0e-3, 1.0e3), pr(2, 1.0e-3, 1.0e3), pr(3, 1.0e-3, 1.0e3));
    let mut d = Gamma::new(a0, b0);
    d.set_alpha(a1).set_beta(b1);
    let mut e = Gamma::new(a0, b0);
    e.update(&[a1, b1]);
    let f = Gamma::new(a1, b1);
    twin_c!(d, f, false);
    twin_c!(e, f, false);
});
harness_g!(name=c18_beta, prop=C18, mode=R, kind=normal, tier=quick, unwind=8, {
    let (a0, b0, a1, b1) = (pr(0, 1.0e-3, 1.0e3), pr(1, 1.0e-3, 1.0e3), pr(2, 1.0e-3, 1.0e3), pr(3, 1.0e-3, 1.0e3));
    let mut d = Beta::new(a0, b0);
    d.set_alpha(a1).set_beta(b1);
    let mut e = Beta::new(a0, b0);
    e.update(&[a1, b1]);
    let f = Beta::new(a1, b1);
    twin_c!(d, f, false);
    twin_c!(e, f, false);
});
harness_g!(name=c18_exponential, prop=C18, mode=R, kind=normal, tier=quick, unwind=8, {
    let (l0, l1) = (pr(0, 1.0e-3, 1.0e3), pr(1, 1.0e-3, 1.0e3));
    let mut d = Exponential::new(l0);
    d.set_lambda(l1);
    let mut e = Exponential::new(l0);
    e.update(&[l1]);
    let f = Exponential::new(l1);
    twin_c!(d, f, true);
    twin_c!(e, f, true);
});
harness_g!(name=c18_gumbel, prop=C18, mode=R, kind=normal, tier=quick, unwind=8, {
    let (m0, b0, m1, b1) = (pr(0, -1.0e3, 1.0e3), pr(1, 1.0e-3, 1.0e3), pr(2, -1.0e3, 1.0e3), pr(3, 1.0e-3, 1.0e3));
    let mut d = Gumbel::new(m0, b0);
    d.set_mu(m1).set_beta(b1);
    let mut e = Gumbel::new(m0, b0);
    e.update(&[m1, b1]);
    let f = Gumbel::new(m1, b1);
    twin_c!(d, f, true);
    twin_c!(e, f, true);
});
harness_g!(name=c18_pareto, prop=C18, mode=R, kind=normal, tier=quick, unwind=8, {
    let (a0, m0, a1, m1) = (pr(0, 1.0e-2, 1.0e2), pr(1, 1.0e-3, 1.0e3), pr(2, 1.0e-2, 1.0e2), pr(3, 1.0e-3, 1.0e3));
    let mut d = Pareto::new(a0, m0);
    d.set_alpha(a1).set_minval(m1);
    let mut e = Pareto::new(a0, m0);
    e.update(&[a1, m1]);
    let f = Pareto::new(a1, m1);
    twin_c!(d, f, true);
    twin_c!(e, f, true);
});
harness_g!(name=c18_t, prop=C18, mode=R, kind=normal, tier=quick, unwind=8, {
    let (v0, v1) = (pr(0, 1.0e-2, 2.0e2), pr(1, 1.0e-2, 2.0e2));
    let mut d = T::new(v0);
    d.set_dof(v1);
    let mut e = T::new(v0);
    e.update(&[v1]);
    let f = T::new(v1);
    twin_c!(d, f, false);
    twin_c!(e, f, false);
});
harness_g!(name=c18_poisson, prop=C18, mode=R, kind=normal, tier=quick, unwind=8, {
    let (l0, l1) = (pr(0, 1.0e-3, 1.0e3), pr(1, 1.0e-3, 1.0e3));
    let mut d = Poisson::new(l0);
    d.set_lambda(l1);
    let mut e = Poisson::new(l0);
    e.update(&[l1]);
    let f = Poisson::new(l1);
    twin_d!(d, f, false);
    twin_d!(e, f, false);
});
harness_g!(name=c18_bernoulli, prop=C18, mode=R, kind=normal, tier=quick, unwind=8, {
    let (p0, p1) = (pr(0, 0.0, 1.0), pr(1, 0.0, 1.0));
    let mut d = Bernoulli::new(p0);
    d.set_p(p1);
    let mut e = Bernoulli::new(p0);
    e.update(&[p1]);
    let f = Bernoulli::new(p1);
    twin_d!(d, f, true);
    twin_d!(e, f, true);
});

// @bound c18_uniform_: old bounds [a0,b0] and new bounds [a1,b1] both valid (a <= b), in ±1e3, in every relative position (including the new interval entirely above or below the old one)
// @claim c18_uniform_: a bulk update / a pair of setters to any valid target succeeds whatever the previous bounds were and gives the fresh object's density, moments and draw (R)
harness!(name=c18_uniform_update, prop=C18, mode=R, kind=normal, tier=quick, unwind=8, {
    let (a0, b0, a1, b1) = (inp::f64(0), inp::f64(1), inp::f64(2), inp::f64(3));
    vassume!(a0 >= -1.0e3 && b0 <= 1.0e3 && a0 <= b0 && a1 >= -1.0e3 && b1 <= 1.0e3 && a1 < b1);
    let mut d = Uniform::new(a0, b0);
    d.update(&[a1, b1]);
    let f = Uniform::new(a1, b1);
    let x = inp::f64(90);
    vassume!(x >= -2.0e3 && x <= 2.0e3);
    crate::vclose!(d.pdf(x), f.pdf(x), 1e-12, "pdf after update");
    crate::vclose!(d.mean(), f.mean(), 1e-9, "mean after update");
    crate::vclose!(d.var(), f.var(), 1e-6, "variance after update");
    alea::shim_set_cursor(0);
    let s1 = d.sample();
    alea::shim_set_cursor(0);
    let s2 = f.sample();
    crate::vclose!(s1, s2, 1e-9, "sample after update");
});
// @bound c18_duniform_update: integer bounds in [-20, 40] before and after (the range in which the interpreter spells Rust's float->integer `as` conversion as a linear comparison chain), every relative position of the two intervals, mass at every k in [-60, 60]
// @claim c18_duniform_update: a bulk update to any valid integer pair succeeds whatever the previous bounds were and gives the fresh object's mass function, mean and variance (R)
harness!(name=c18_duniform_update, prop=C18, mode=R, kind=normal, tier=quick, unwind=8, {
    let (a0, w0, a1, w1) = (inp::i64(0), inp::i64(1), inp::i64(2), inp::i64(3));
    vassume!(a0 >= -20 && a0 <= 20 && w0 >= 0 && w0 <= 20 && a1 >= -20 && a1 <= 20 && w1 >= 0 && w1 <= 20);
    let mut d = DiscreteUniform::new(a0, a0 + w0);
    d.update(&[a1 as f64, (a1 + w1) as f64]);
    let f = DiscreteUniform::new(a1, a1 + w1);
    let k = inp::i64(90);
    vassume!(k >= -60 && k <= 60);
    crate::vclose!(d.pmf(k), f.pmf(k), 1e-15, "pmf after update");
    crate::vclose!(d.mean(), f.mean(), 1e-9, "mean after update");
});
// the variance (a product of two integer-valued terms) separately: one nonlinear obligation per query
harness!(name=c18_duniform_update_var, prop=C18, mode=R, kind=normal, tier=quick, unwind=8, {
    let (a0, w0, a1, w1) = (inp::i64(0), inp::i64(1), inp::i64(2), inp::i64(3));
    vassume!(a0 >= -20 && a0 <= 20 && w0 >= 0 && w0 <= 20 && a1 >= -20 && a1 <= 20 && w1 >= 0 && w1 <= 20);
    let mut d = DiscreteUniform::new(a0, a0 + w0);
    d.update(&[a1 as f64, (a1 + w1) as f64]);
    let f = DiscreteUniform::new(a1, a1 + w1);
    crate::vclose!(d.var(), f.var(), 1e-6, "variance after update");
});
// @bound c18_duniform_setters: integer bounds in [-20, 40]; set_lower to ANY value not above the current upper bound (the current upper bound itself included: the one-point range `new` accepts), then set_upper to any value not below the new lower bound (equality included); mass at every k in [-60, 60]
// @claim c18_duniform_setters: each single setter to a valid target succeeds - a setter must accept exactly the ranges the constructor accepts - and gives the fresh object's mass function and mean (R)
harness!(name=c18_duniform_setters, prop=C18, mode=R, kind=normal, tier=quick, unwind=8, {
    let (a0, w0, l, w1) = (inp::i64(0), inp::i64(1), inp::i64(2), inp::i64(3));
    vassume!(a0 >= -20 && a0 <= 20 && w0 >= 0 && w0 <= 20 && l >= -20 && l <= a0 + w0 && w1 >= 0 && w1 <= 20);
    let mut d = DiscreteUniform::new(a0, a0 + w0);
    d.set_lower(l);
    let f = DiscreteUniform::new(l, a0 + w0);
    let k = inp::i64(90);
    vassume!(k >= -60 && k <= 60);
    crate::vclose!(d.pmf(k), f.pmf(k), 1e-15, "pmf after set_lower");
    crate::vclose!(d.mean(), f.mean(), 1e-9, "mean after set_lower");
    d.set_upper(l + w1);
    let g = DiscreteUniform::new(l, l + w1);
    crate::vclose!(d.pmf(k), g.pmf(k), 1e-15, "pmf after set_upper");
    crate::vclose!(d.mean(), g.mean(), 1e-9, "mean after set_upper");
});
// the two boundary targets as instances of their own (a setter to the one-point range [u, u] / [l, l])
harness!(name=c18_duniform_setters_point, prop=C18, mode=R, kind=normal, tier=quick, unwind=8, {
    let (a0, w0) = (inp::i64(0), inp::i64(1));
    vassume!(a0 >= -20 && a0 <= 20 && w0 >= 0 && w0 <= 20);
    let mut d = DiscreteUniform::new(a0, a0 + w0);
    d.set_lower(a0 + w0);
    let f = DiscreteUniform::new(a0 + w0, a0 + w0);
    let k = inp::i64(90);
    vassume!(k >= -60 && k <= 60);
    crate::vclose!(d.pmf(k), f.pmf(k), 1e-15, "pmf after set_lower(upper)");
    let mut e = DiscreteUniform::new(a0, a0 + w0);
    e.set_upper(a0);
    let g = DiscreteUniform::new(a0, a0);
    crate::vclose!(e.pmf(k), g.pmf(k), 1e-15, "pmf after set_upper(lower)");
});
// @claim c18_binomial: setters and update of Binomial (integer n, real p)
harness!(name=c18_binomial, prop=C18, mode=R, kind=normal, tier=quick, unwind=8, {
    let (n0, n1) = (inp::u64(0), inp::u64(1));
    let (p0, p1) = (inp::f64(0), inp::f64(1));
    vassume!(n0 <= 3 && n1 <= 3 && p0 >= 0.0 && p0 <= 1.0 && p1 >= 0.0 && p1 <= 1.0);
    let mut d = Binomial::new(n0, p0);
    d.set_n(n1).set_p(p1);
    let mut e = Binomial::new(n0, p0);
    e.update(&[n1 as f64, p1]);
    let f = Binomial::new(n1, p1);
    crate::vclose!(d.mean(), f.mean(), 1e-12, "mean after setters");
    crate::vclose!(e.mean(), f.mean(), 1e-12, "mean after update");
    crate::vclose!(d.var(), f.var(), 1e-12, "variance after setters");
    crate::vclose!(e.var(), f.var(), 1e-12, "variance after update");
});
// @bound c18_chi2_: dof 1..4 before and after (instances)
// @claim c18_chi2_: set_dof / update give the fresh object's density and moments (R); the draw is c18_chi2draw_
// @cap c18_chi2_: 200
fn chi2(k0: usize, k1: usize, via_update: bool) {
    let mut d = ChiSquared::new(k0);
    if via_update {
        d.update(&[k1 as f64]);
    } else {
        d.set_dof(k1);
    }
    let f = ChiSquared::new(k1);
    let x = inp::f64(90);
    vassume!(x >= -1.0e3 && x <= 1.0e3);
    crate::vclose!(d.pdf(x), f.pdf(x), 1e-12, "pdf after set_dof");
    crate::vclose!(d.mean(), f.mean(), 0.0, "mean after set_dof");
    crate::vclose!(d.var(), f.var(), 0.0, "variance after set_dof");
}
harness_g!(name=c18_chi2_set_1_3, prop=C18, mode=R, kind=normal, tier=quick, unwind=8, { chi2(1, 3, false) });
harness_g!(name=c18_chi2_upd_4_2, prop=C18, mode=R, kind=normal, tier=quick, unwind=8, { chi2(4, 2, true) });

// @bound c18_chi2draw_: dof before/after as per instance; every RNG stream whose raw 64-bit outputs select the instance's ziggurat layer (low 7 bits; layers 0, 5, 40, 90, 127 over the instances) and on which both objects' rejection loops (ziggurat normal, Marsaglia-Tsang) finish within one further iteration (unwinding assertions off: longer rejection runs are outside the claim); floating-point operations opaque (U), so the obligation is that both objects perform the same operations on the same bits
// @claim c18_chi2draw_: after set_dof / update the object draws, from the same recorded stream, the bit-identical value a freshly constructed ChiSquared draws, and consumes the same number of RNG outputs
// @nounwindassert c18_chi2draw_: on
// @cap c18_chi2draw_: 120
// @modes c18_chi2draw_: U
/// restrict the raw 64-bit outputs of the first 12 stream positions to ziggurat layer `layer` (their low
/// 7 bits select the layer of Normal::sample; with a concrete layer its three table lookups are constants)
fn pin_layer(layer: u64) {
    // unrolled by hand: the unwinding bound of these harnesses is 2
    vassume!(alea::shim_peek_u64(0) & 0x7F == layer);
    vassume!(alea::shim_peek_u64(1) & 0x7F == layer);
    vassume!(alea::shim_peek_u64(2) & 0x7F == layer);
    vassume!(alea::shim_peek_u64(3) & 0x7F == layer);
    vassume!(alea::shim_peek_u64(4) & 0x7F == layer);
    vassume!(alea::shim_peek_u64(5) & 0x7F == layer);
    vassume!(alea::shim_peek_u64(6) & 0x7F == layer);
    vassume!(alea::shim_peek_u64(7) & 0x7F == layer);
    vassume!(alea::shim_peek_u64(8) & 0x7F == layer);
    vassume!(alea::shim_peek_u64(9) & 0x7F == layer);
    vassume!(alea::shim_peek_u64(10) & 0x7F == layer);
    vassume!(alea::shim_peek_u64(11) & 0x7F == layer);
}
fn chi2_draw(k0: usize, k1: usize, via_update: bool, layer: u64) {
    pin_layer(layer);
    let mut d = ChiSquared::new(k0);
    if via_update {
        d.update(&[k1 as f64]);
    } else {
        d.set_dof(k1);
    }
    let f = ChiSquared::new(k1);
    alea::shim_set_cursor(0);
    let s1 = d.sample();
    let c1 = alea::shim_cursor();
    alea::shim_set_cursor(0);
    let s2 = f.sample();
    let c2 = alea::shim_cursor();
    crate::vbits!(s1, s2, "draw from the same stream after a dof change {} -> {}", k0, k1);
    vassert!(c1 == c2, "RNG outputs consumed: {} vs {}", c1, c2);
}
harness!(name=c18_chi2draw_set_2_3, prop=C18, mode=U, kind=normal, tier=thorough, unwind=2, { chi2_draw(2, 3, false, 5) });
harness!(name=c18_chi2draw_set_4_2, prop=C18, mode=U, kind=normal, tier=thorough, unwind=2, { chi2_draw(4, 2, false, 127) });
harness!(name=c18_chi2draw_upd_2_5, prop=C18, mode=U, kind=normal, tier=thorough, unwind=2, { chi2_draw(2, 5, true, 40) });
harness!(name=c18_chi2draw_set_3_1, prop=C18, mode=U, kind=normal, tier=thorough, unwind=2, { chi2_draw(3, 1, false, 90) });
harness!(name=c18_chi2draw_upd_1_4, prop=C18, mode=U, kind=normal, tier=thorough, unwind=2, { chi2_draw(1, 4, true, 5) });

// @bound c18_betadraw_: concrete shapes before/after as per instance (both branches of the Gamma sampler: shape < 1 and >= 1); streams and unwinding as for c18_chi2draw_
// @claim c18_betadraw_: after set_alpha / set_beta / update a Beta object draws, from the same recorded stream, the bit-identical value a freshly constructed Beta draws (its two Gamma generators were rebuilt), consuming the same number of RNG outputs (U)
// @nounwindassert c18_betadraw_: on
// @cap c18_betadraw_: 60
// @modes c18_betadraw_: U
fn beta_draw(a0: f64, b0: f64, a1: f64, b1: f64, how: u8, layer: u64) {
    pin_layer(layer);
    let mut d = Beta::new(a0, b0);
    match how {
        0 => { d.set_alpha(a1); d.set_beta(b1); }
        1 => { d.set_beta(b1).set_alpha(a1); }
        _ => { d.update(&[a1, b1]); }
    }
    let f = Beta::new(a1, b1);
    alea::shim_set_cursor(0);
    let s1 = d.sample();
    let c1 = alea::shim_cursor();
    alea::shim_set_cursor(0);
    let s2 = f.sample();
    let c2 = alea::shim_cursor();
    crate::vbits!(s1, s2, "Beta draw from the same stream after a parameter change");
    vassert!(c1 == c2, "RNG outputs consumed: {} vs {}", c1, c2);
}
harness!(name=c18_betadraw_set_ab, prop=C18, mode=U, kind=normal, tier=thorough, unwind=2, { beta_draw(2.0, 3.0, 1.5, 4.0, 0, 17) });
harness!(name=c18_betadraw_set_ba, prop=C18, mode=U, kind=normal, tier=thorough, unwind=2, { beta_draw(1.0, 1.0, 2.5, 1.25, 1, 127) });
harness!(name=c18_betadraw_upd, prop=C18, mode=U, kind=normal, tier=thorough, unwind=2, { beta_draw(2.0, 2.0, 3.0, 5.0, 2, 63) });
harness!(name=c18_betadraw_small, prop=C18, mode=U, kind=normal, tier=thorough, unwind=2, { beta_draw(2.0, 3.0, 0.5, 0.75, 0, 17) });

// ---- derived sampler state (Beta, ChiSquared): representation equality with a fresh object
// @bound c18_state_: every parameter bit pattern accepted by the constructor / setter (parameters opaque, U; the validity tests are the code's own comparisons); ChiSquared: every dof in 1..2^53
// @claim c18_state_: after a setter / update the object's memory representation (all fields, including the private generators the sampler uses) is bit-identical to a freshly constructed object's. Both types are Copy with f64/usize fields only, so equal representations behave identically on every stream, with no bound on the rejection loops. This is a sufficient condition (an implementation may keep behaviourally irrelevant state): unsat decides the clause, sat is reported as undecided and the bounded same-stream draws (c18_chi2draw_, c18_betadraw_) decide
// @sufficient c18_state_: on
// @fallback c18_state_beta_: c18_betadraw_set_ab c18_betadraw_set_ba c18_betadraw_upd
// @fallback c18_state_chi2_: c18_chi2draw_set_2_3 c18_chi2draw_upd_2_5
// @modes c18_state_: U
fn same_state<T: Copy>(a: &T, b: &T, what: &'static str) {
    let n = core::mem::size_of::<T>() / 8;
    let (pa, pb) = (a as *const T as *const u64, b as *const T as *const u64);
    let mut i = 0;
    while i < n {
        let (x, y) = unsafe { (core::ptr::read_unaligned(pa.add(i)), core::ptr::read_unaligned(pb.add(i))) };
        vassert!(x == y, "{}: word {} of the representation differs: {:#x} vs {:#x}", what, i, x, y);
        i += 1;
    }
}
fn beta_state(how: u8) {
    let (a0, b0, a1, b1) = (inp::f64(0), inp::f64(1), inp::f64(2), inp::f64(3));
    vassume!(!(a0 <= 0.0 || b0 <= 0.0));
    vassume!(!(a1 <= 0.0 || b1 <= 0.0));
    let mut d = Beta::new(a0, b0);
    let f = match how {
        0 => { d.set_alpha(a1); Beta::new(a1, b0) }
        1 => { d.set_beta(b1); Beta::new(a0, b1) }
        2 => { d.set_beta(b1).set_alpha(a1); Beta::new(a1, b1) }
        _ => { d.update(&[a1, b1]); Beta::new(a1, b1) }
    };
    same_state(&d, &f, "Beta");
}
harness!(name=c18_state_beta_alpha, prop=C18, mode=U, kind=normal, tier=quick, unwind=16, { beta_state(0) });
harness!(name=c18_state_beta_beta, prop=C18, mode=U, kind=normal, tier=quick, unwind=16, { beta_state(1) });
harness!(name=c18_state_beta_both, prop=C18, mode=U, kind=normal, tier=quick, unwind=16, { beta_state(2) });
harness!(name=c18_state_beta_update, prop=C18, mode=U, kind=normal, tier=quick, unwind=16, { beta_state(3) });
fn chi2_state(via_update: bool) {
    let (k0, k1) = (inp::u64(0) as usize, inp::u64(1) as usize);
    vassume!(k0 > 0 && k0 < (1 << 53) && k1 > 0 && k1 < (1 << 53));
    let mut d = ChiSquared::new(k0);
    if via_update {
        d.update(&[k1 as f64]);
    } else {
        d.set_dof(k1);
    }
    let f = ChiSquared::new(k1);
    same_state(&d, &f, "ChiSquared");
}
// @modes c18_state_chi2_: B
// @cap c18_state_chi2_: 150
harness!(name=c18_state_chi2_set, prop=C18, mode=B, kind=normal, tier=quick, unwind=9, { chi2_state(false) });
harness!(name=c18_state_chi2_update, prop=C18, mode=B, kind=normal, tier=quick, unwind=9, { chi2_state(true) });

// @claim c18_reject_: invalid values are rejected by a panic in setters and bulk updates alike (so no object ever holds an out-of-domain parameter)
fn reject(which: u8) {
    let (a, b, v) = (inp::f64(0), inp::f64(1), inp::f64(2));
    match which {
        0 => { vassume!(b >= 0.0 && v < 0.0); let mut d = Normal::new(a, b); vmustpanic!(d.set_sigma(v).mean(), "Normal::set_sigma < 0"); }
        1 => { vassume!(b >= 0.0 && v < 0.0); let mut d = Normal::new(a, b); vmustpanic!(d.update(&[a, v]), "Normal::update sigma < 0"); }
        2 => { vassume!(a > 0.0 && b > 0.0 && v <= 0.0); let mut d = Gamma::new(a, b); vmustpanic!(d.update(&[v, b]), "Gamma::update alpha <= 0"); }
        3 => { vassume!(a > 0.0 && b > 0.0 && v <= 0.0); let mut d = Beta::new(a, b); vmustpanic!(d.set_beta(v).mean(), "Beta::set_beta <= 0"); }
        4 => { vassume!(a > 0.0 && v <= 0.0); let mut d = Exponential::new(a); vmustpanic!(d.update(&[v]), "Exponential::update <= 0"); }
        5 => { vassume!(a <= b && v > b); let mut d = Uniform::new(a, b); vmustpanic!(d.set_lower(v).mean(), "Uniform::set_lower above upper"); }
        6 => { vassume!(a >= 0.0 && a <= 1.0 && (v < 0.0 || v > 1.0)); let mut d = Bernoulli::new(a); vmustpanic!(d.update(&[v]), "Bernoulli::update outside [0,1]"); }
        7 => { vassume!(a > 0.0 && v <= 0.0); let mut d = Poisson::new(a); vmustpanic!(d.set_lambda(v).mean(), "Poisson::set_lambda <= 0"); }
        8 => { vassume!(a > 0.0 && v <= 0.0); let mut d = T::new(a); vmustpanic!(d.update(&[v]), "T::update <= 0"); }
        9 => { vassume!(a > 0.0 && b > 0.0 && v <= 0.0); let mut d = Pareto::new(a, b); vmustpanic!(d.set_minval(v).mean(), "Pareto::set_minval <= 0"); }
        10 => { vassume!(b > 0.0 && v <= 0.0); let mut d = Gumbel::new(a, b); vmustpanic!(d.update(&[a, v]), "Gumbel::update beta <= 0"); }
        11 => { vassume!(a >= 0.0 && a <= 1.0 && (v < 0.0 || v > 1.0)); let mut d = Binomial::new(3, a); vmustpanic!(d.set_p(v).mean(), "Binomial::set_p outside [0,1]"); }
        12 => { let mut d = ChiSquared::new(2); vmustpanic!(d.set_dof(0).mean(), "ChiSquared::set_dof 0"); }
        _ => { vassume!(a <= b && v > b); let mut d = Uniform::new(a, b); vmustpanic!(d.update(&[v, v - 1.0]), "Uniform::update lower > upper"); }
    }
}
harness!(name=c18_reject_0, prop=C18, mode=R, kind=mustpanic, tier=quick, unwind=8, { reject(0) });
harness!(name=c18_reject_1, prop=C18, mode=R, kind=mustpanic, tier=quick, unwind=8, { reject(1) });
harness!(name=c18_reject_2, prop=C18, mode=R, kind=mustpanic, tier=quick, unwind=8, { reject(2) });
harness!(name=c18_reject_3, prop=C18, mode=R, kind=mustpanic, tier=quick, unwind=8, { reject(3) });
harness!(name=c18_reject_4, prop=C18, mode=R, kind=mustpanic, tier=quick, unwind=8, { reject(4) });
harness!(name=c18_reject_5, prop=C18, mode=R, kind=mustpanic, tier=quick, unwind=8, { reject(5) });
harness!(name=c18_reject_6, prop=C18, mode=R, kind=mustpanic, tier=quick, unwind=8, { reject(6) });
harness!(name=c18_reject_7, prop=C18, mode=R, kind=mustpanic, tier=quick, unwind=8, { reject(7) });
harness!(name=c18_reject_8, prop=C18, mode=R, kind=mustpanic, tier=quick, unwind=8, { reject(8) });
harness!(name=c18_reject_9, prop=C18, mode=R, kind=mustpanic, tier=quick, unwind=8, { reject(9) });
harness!(name=c18_reject_10, prop=C18, mode=R, kind=mustpanic, tier=quick, unwind=8, { reject(10) });
harness!(name=c18_reject_11, prop=C18, mode=R, kind=mustpanic, tier=quick, unwind=8, { reject(11) });
harness!(name=c18_reject_12, prop=C18, mode=R, kind=mustpanic, tier=quick, unwind=8, { reject(12) });
harness!(name=c18_reject_13, prop=C18, mode=R, kind=mustpanic, tier=quick, unwind=8, { reject(13) });
