//! C05 Matrix products follow the definition for every shape and transpose flag.
use crate::rt::inp;
use crate::{harness, vassert, vassume, vclose, vmustpanic};
use compute::linalg::*;

fn amax(v: &[f64]) -> f64 {
    let mut s: f64 = 1.0;
    for x in v {
        s = s.max(x.abs());
    }
    s
}

/// reference: C[i][j] = sum_k opA[i][k] * opB[k][j]; a, b in the storage layout matmul expects
fn ref_mm(a: &[f64], b: &[f64], m: usize, l: usize, n: usize, ta: bool, tb: bool) -> Vec<f64> {
    let mut c = Vec::with_capacity(m * n);
    let mut i = 0;
    while i < m {
        let mut j = 0;
        while j < n {
            let mut s = 0.0;
            let mut k = 0;
            while k < l {
                let x = if ta { a[k * m + i] } else { a[i * l + k] };
                let y = if tb { b[j * l + k] } else { b[k * n + j] };
                s += x * y;
                k += 1;
            }
            c.push(s);
            j += 1;
        }
        i += 1;
    }
    c
}
fn cmp(got: &[f64], want: &[f64], tol: f64, what: &'static str, ta: bool, tb: bool) {
    vassert!(got.len() == want.len(), "{} (ta={},tb={}): length {} != {}", what, ta, tb, got.len(), want.len());
    let mut i = 0;
    while i < want.len() && i < got.len() {
        vclose!(got[i], want[i], tol, "{} (ta={},tb={}) entry {}", what, ta, tb, i);
        i += 1;
    }
}

// @bound c05_matmul_: op(A) is MxL, op(B) is LxN (instance), all four transpose-flag pairs, every real A, B
// @claim c05_matmul_: matmul returns the MxN matrix with entries sum_k op(A)[i,k] op(B)[k,j] (R)
fn mm<const M: usize, const L: usize, const N: usize>(ta: bool, tb: bool) {
    let a = inp::vec(0, M * L);
    let b = inp::vec(100, L * N);
    let tol = 1e-9 * amax(&a) * amax(&b) * L as f64;
    let want = ref_mm(&a, &b, M, L, N, ta, tb);
    let got = matmul(&a, &b, if ta { L } else { M }, if tb { N } else { L }, ta, tb);
    cmp(&got, &want, tol, "matmul", ta, tb);
}
fn mm4<const M: usize, const L: usize, const N: usize>() {
    mm::<M, L, N>(false, false);
    mm::<M, L, N>(true, false);
    mm::<M, L, N>(false, true);
    mm::<M, L, N>(true, true);
}
// @bound c05_blocked_: shape (M,L,N) instance, all four flag pairs, block sizes 1, 2, max+1, 2*max
// @claim c05_blocked_: matmul_blocked returns the same product for every block size (R)
fn mmb<const M: usize, const L: usize, const N: usize>(ta: bool, tb: bool) {
    let a = inp::vec(0, M * L);
    let b = inp::vec(100, L * N);
    let tol = 1e-9 * amax(&a) * amax(&b) * L as f64;
    let want = ref_mm(&a, &b, M, L, N, ta, tb);
    let mx = M.max(L).max(N);
    for bs in [1, 2, mx + 1, 2 * mx] {
        let got = matmul_blocked(&a, &b, if ta { L } else { M }, if tb { N } else { L }, ta, tb, bs);
        cmp(&got, &want, tol, "matmul_blocked", ta, tb);
    }
}
fn mmb4<const M: usize, const L: usize, const N: usize>() {
    mmb::<M, L, N>(false, false);
    mmb::<M, L, N>(true, false);
    mmb::<M, L, N>(false, true);
    mmb::<M, L, N>(true, true);
}
harness!(name=c05_matmul_111, prop=C05, mode=R, kind=normal, tier=quick, unwind=4, { mm4::<1, 1, 1>() });
harness!(name=c05_blocked_111, prop=C05, mode=R, kind=normal, tier=thorough, unwind=5, { mmb4::<1, 1, 1>() });
harness!(name=c05_matmul_112, prop=C05, mode=R, kind=normal, tier=quick, unwind=5, { mm4::<1, 1, 2>() });
harness!(name=c05_blocked_112, prop=C05, mode=R, kind=normal, tier=thorough, unwind=7, { mmb4::<1, 1, 2>() });
harness!(name=c05_matmul_113, prop=C05, mode=R, kind=normal, tier=thorough, unwind=6, { mm4::<1, 1, 3>() });
harness!(name=c05_blocked_113, prop=C05, mode=R, kind=normal, tier=thorough, unwind=9, { mmb4::<1, 1, 3>() });
harness!(name=c05_matmul_121, prop=C05, mode=R, kind=normal, tier=quick, unwind=5, { mm4::<1, 2, 1>() });
harness!(name=c05_blocked_121, prop=C05, mode=R, kind=normal, tier=thorough, unwind=7, { mmb4::<1, 2, 1>() });
harness!(name=c05_matmul_122, prop=C05, mode=R, kind=normal, tier=quick, unwind=7, { mm4::<1, 2, 2>() });
harness!(name=c05_blocked_122, prop=C05, mode=R, kind=normal, tier=thorough, unwind=7, { mmb4::<1, 2, 2>() });
harness!(name=c05_matmul_123, prop=C05, mode=R, kind=normal, tier=thorough, unwind=9, { mm4::<1, 2, 3>() });
harness!(name=c05_blocked_123, prop=C05, mode=R, kind=normal, tier=thorough, unwind=9, { mmb4::<1, 2, 3>() });
harness!(name=c05_matmul_131, prop=C05, mode=R, kind=normal, tier=thorough, unwind=6, { mm4::<1, 3, 1>() });
harness!(name=c05_blocked_131, prop=C05, mode=R, kind=normal, tier=thorough, unwind=9, { mmb4::<1, 3, 1>() });
harness!(name=c05_matmul_132, prop=C05, mode=R, kind=normal, tier=quick, unwind=9, { mm4::<1, 3, 2>() });
harness!(name=c05_blocked_132, prop=C05, mode=R, kind=normal, tier=quick, unwind=9, { mmb4::<1, 3, 2>() });
harness!(name=c05_matmul_133, prop=C05, mode=R, kind=normal, tier=thorough, unwind=12, { mm4::<1, 3, 3>() });
harness!(name=c05_blocked_133, prop=C05, mode=R, kind=normal, tier=thorough, unwind=12, { mmb4::<1, 3, 3>() });
harness!(name=c05_matmul_211, prop=C05, mode=R, kind=normal, tier=quick, unwind=5, { mm4::<2, 1, 1>() });
harness!(name=c05_blocked_211, prop=C05, mode=R, kind=normal, tier=thorough, unwind=7, { mmb4::<2, 1, 1>() });
harness!(name=c05_matmul_212, prop=C05, mode=R, kind=normal, tier=quick, unwind=7, { mm4::<2, 1, 2>() });
harness!(name=c05_blocked_212, prop=C05, mode=R, kind=normal, tier=thorough, unwind=7, { mmb4::<2, 1, 2>() });
harness!(name=c05_matmul_213, prop=C05, mode=R, kind=normal, tier=thorough, unwind=9, { mm4::<2, 1, 3>() });
harness!(name=c05_blocked_213, prop=C05, mode=R, kind=normal, tier=thorough, unwind=9, { mmb4::<2, 1, 3>() });
harness!(name=c05_matmul_221, prop=C05, mode=R, kind=normal, tier=quick, unwind=7, { mm4::<2, 2, 1>() });
harness!(name=c05_blocked_221, prop=C05, mode=R, kind=normal, tier=thorough, unwind=7, { mmb4::<2, 2, 1>() });
harness!(name=c05_matmul_222, prop=C05, mode=R, kind=normal, tier=quick, unwind=7, { mm4::<2, 2, 2>() });
harness!(name=c05_blocked_222, prop=C05, mode=R, kind=normal, tier=quick, unwind=7, { mmb4::<2, 2, 2>() });
harness!(name=c05_matmul_223, prop=C05, mode=R, kind=normal, tier=quick, unwind=9, { mm4::<2, 2, 3>() });
harness!(name=c05_blocked_223, prop=C05, mode=R, kind=normal, tier=thorough, unwind=9, { mmb4::<2, 2, 3>() });
harness!(name=c05_matmul_231, prop=C05, mode=R, kind=normal, tier=thorough, unwind=9, { mm4::<2, 3, 1>() });
harness!(name=c05_blocked_231, prop=C05, mode=R, kind=normal, tier=thorough, unwind=9, { mmb4::<2, 3, 1>() });
harness!(name=c05_matmul_232, prop=C05, mode=R, kind=normal, tier=thorough, unwind=9, { mm4::<2, 3, 2>() });
harness!(name=c05_blocked_232, prop=C05, mode=R, kind=normal, tier=thorough, unwind=9, { mmb4::<2, 3, 2>() });
harness!(name=c05_matmul_233, prop=C05, mode=R, kind=normal, tier=thorough, unwind=12, { mm4::<2, 3, 3>() });
harness!(name=c05_blocked_233, prop=C05, mode=R, kind=normal, tier=thorough, unwind=12, { mmb4::<2, 3, 3>() });
harness!(name=c05_matmul_311, prop=C05, mode=R, kind=normal, tier=thorough, unwind=6, { mm4::<3, 1, 1>() });
harness!(name=c05_blocked_311, prop=C05, mode=R, kind=normal, tier=thorough, unwind=9, { mmb4::<3, 1, 1>() });
harness!(name=c05_matmul_312, prop=C05, mode=R, kind=normal, tier=quick, unwind=9, { mm4::<3, 1, 2>() });
harness!(name=c05_blocked_312, prop=C05, mode=R, kind=normal, tier=quick, unwind=9, { mmb4::<3, 1, 2>() });
harness!(name=c05_matmul_313, prop=C05, mode=R, kind=normal, tier=thorough, unwind=12, { mm4::<3, 1, 3>() });
harness!(name=c05_blocked_313, prop=C05, mode=R, kind=normal, tier=thorough, unwind=12, { mmb4::<3, 1, 3>() });
harness!(name=c05_matmul_321, prop=C05, mode=R, kind=normal, tier=thorough, unwind=9, { mm4::<3, 2, 1>() });
harness!(name=c05_blocked_321, prop=C05, mode=R, kind=normal, tier=thorough, unwind=9, { mmb4::<3, 2, 1>() });
harness!(name=c05_matmul_322, prop=C05, mode=R, kind=normal, tier=thorough, unwind=9, { mm4::<3, 2, 2>() });
harness!(name=c05_blocked_322, prop=C05, mode=R, kind=normal, tier=thorough, unwind=9, { mmb4::<3, 2, 2>() });
harness!(name=c05_matmul_323, prop=C05, mode=R, kind=normal, tier=thorough, unwind=12, { mm4::<3, 2, 3>() });
harness!(name=c05_blocked_323, prop=C05, mode=R, kind=normal, tier=thorough, unwind=12, { mmb4::<3, 2, 3>() });
harness!(name=c05_matmul_331, prop=C05, mode=R, kind=normal, tier=thorough, unwind=12, { mm4::<3, 3, 1>() });
harness!(name=c05_blocked_331, prop=C05, mode=R, kind=normal, tier=thorough, unwind=12, { mmb4::<3, 3, 1>() });
harness!(name=c05_matmul_332, prop=C05, mode=R, kind=normal, tier=thorough, unwind=12, { mm4::<3, 3, 2>() });
harness!(name=c05_blocked_332, prop=C05, mode=R, kind=normal, tier=thorough, unwind=12, { mmb4::<3, 3, 2>() });
harness!(name=c05_matmul_333, prop=C05, mode=R, kind=normal, tier=thorough, unwind=12, { mm4::<3, 3, 3>() });
harness!(name=c05_blocked_333, prop=C05, mode=R, kind=normal, tier=thorough, unwind=12, { mmb4::<3, 3, 3>() });

// @bound c05_xtx_: X is KxC (instance)
// @claim c05_xtx_: xtx(X, K) = X^T X (CxC) (R)
fn xtx_h<const K: usize, const C: usize>() {
    let x = inp::vec(0, K * C);
    let tol = 1e-9 * amax(&x) * amax(&x) * K as f64;
    let want = ref_mm(&x, &x, C, K, C, true, false);
    cmp(&xtx(&x, K), &want, tol, "xtx", true, false);
}
harness!(name=c05_xtx_12, prop=C05, mode=R, kind=normal, tier=quick, unwind=8, { xtx_h::<1, 2>() });
harness!(name=c05_xtx_22, prop=C05, mode=R, kind=normal, tier=quick, unwind=8, { xtx_h::<2, 2>() });
harness!(name=c05_xtx_32, prop=C05, mode=R, kind=normal, tier=quick, unwind=9, { xtx_h::<3, 2>() });
harness!(name=c05_xtx_23, prop=C05, mode=R, kind=normal, tier=thorough, unwind=12, { xtx_h::<2, 3>() });

// @bound c05_dot_mm_: A is PxQ, N free dimension (instance); all four products x four ownership forms
// @claim c05_dot_mm_: Matrix.dot/t_dot/dot_t/t_dot_t(Matrix) equal op(A) op(B) with the right shape (R)
fn dot_mm<const P: usize, const Q: usize, const N: usize>() {
    let a = inp::vec(0, P * Q);
    let am = Matrix::new(a.clone(), P as i32, Q as i32);
    let sc = amax(&a);
    // dot: B is QxN
    {
        let b = inp::vec(100, Q * N);
        let bm = Matrix::new(b.clone(), Q as i32, N as i32);
        let want = ref_mm(&a, &b, P, Q, N, false, false);
        let tol = 1e-9 * sc * amax(&b) * Q as f64;
        let r = <Matrix as Dot<&Matrix, Matrix>>::dot(&am, &bm);
        vassert!(r.nrows == P && r.ncols == N, "dot shape");
        cmp(&r.data, &want, tol, "M.dot(&M)", false, false);
        let r = <Matrix as Dot<Matrix, Matrix>>::dot(&am, bm.clone());
        cmp(&r.data, &want, tol, "M.dot(M)", false, false);
        let r = <&Matrix as Dot<&Matrix, Matrix>>::dot(&&am, &bm);
        cmp(&r.data, &want, tol, "&M.dot(&M)", false, false);
        let r = <&Matrix as Dot<Matrix, Matrix>>::dot(&&am, bm.clone());
        cmp(&r.data, &want, tol, "&M.dot(M)", false, false);
    }
    // t_dot: B is PxN, result QxN
    {
        let b = inp::vec(100, P * N);
        let bm = Matrix::new(b.clone(), P as i32, N as i32);
        let want = ref_mm(&a, &b, Q, P, N, true, false);
        let tol = 1e-9 * sc * amax(&b) * P as f64;
        let r = <Matrix as Dot<&Matrix, Matrix>>::t_dot(&am, &bm);
        vassert!(r.nrows == Q && r.ncols == N, "t_dot shape");
        cmp(&r.data, &want, tol, "M.t_dot(&M)", true, false);
        let r = <&Matrix as Dot<Matrix, Matrix>>::t_dot(&&am, bm.clone());
        cmp(&r.data, &want, tol, "&M.t_dot(M)", true, false);
    }
    // dot_t: B is NxQ, result PxN
    {
        let b = inp::vec(100, N * Q);
        let bm = Matrix::new(b.clone(), N as i32, Q as i32);
        let want = ref_mm(&a, &b, P, Q, N, false, true);
        let tol = 1e-9 * sc * amax(&b) * Q as f64;
        let r = <Matrix as Dot<&Matrix, Matrix>>::dot_t(&am, &bm);
        vassert!(r.nrows == P && r.ncols == N, "dot_t shape");
        cmp(&r.data, &want, tol, "M.dot_t(&M)", false, true);
        let r = <&Matrix as Dot<&Matrix, Matrix>>::dot_t(&&am, &bm);
        cmp(&r.data, &want, tol, "&M.dot_t(&M)", false, true);
    }
    // t_dot_t: B is NxP, result QxN
    {
        let b = inp::vec(100, N * P);
        let bm = Matrix::new(b.clone(), N as i32, P as i32);
        let want = ref_mm(&a, &b, Q, P, N, true, true);
        let tol = 1e-9 * sc * amax(&b) * P as f64;
        let r = <Matrix as Dot<&Matrix, Matrix>>::t_dot_t(&am, &bm);
        vassert!(r.nrows == Q && r.ncols == N, "t_dot_t shape {}x{}", r.nrows, r.ncols);
        cmp(&r.data, &want, tol, "M.t_dot_t(&M)", true, true);
        let r = <Matrix as Dot<Matrix, Matrix>>::t_dot_t(&am, bm.clone());
        cmp(&r.data, &want, tol, "M.t_dot_t(M)", true, true);
    }
}
harness!(name=c05_dot_mm_111, prop=C05, mode=R, kind=normal, tier=quick, unwind=6, { dot_mm::<1, 1, 1>() });
harness!(name=c05_dot_mm_122, prop=C05, mode=R, kind=normal, tier=quick, unwind=8, { dot_mm::<1, 2, 2>() });
harness!(name=c05_dot_mm_212, prop=C05, mode=R, kind=normal, tier=quick, unwind=8, { dot_mm::<2, 1, 2>() });
harness!(name=c05_dot_mm_221, prop=C05, mode=R, kind=normal, tier=quick, unwind=8, { dot_mm::<2, 2, 1>() });
harness!(name=c05_dot_mm_231, prop=C05, mode=R, kind=normal, tier=quick, unwind=10, { dot_mm::<2, 3, 1>() });
harness!(name=c05_dot_mm_232, prop=C05, mode=R, kind=normal, tier=thorough, unwind=10, { dot_mm::<2, 3, 2>() });
harness!(name=c05_dot_mm_323, prop=C05, mode=R, kind=normal, tier=thorough, unwind=13, { dot_mm::<3, 2, 3>() });

// @bound c05_dot_mv_: Matrix PxQ (instance) with Vector operands on either side, and Vector.Vector
// @claim c05_dot_mv_: Matrix.{dot,dot_t}(v) = A v; Matrix.{t_dot,t_dot_t}(v) = A^T v; Vector.{dot,t_dot}(A) = v^T A; Vector.{dot_t,t_dot_t}(A) = v^T A^T; Vector.dot(Vector) = sum v_i w_i (R)
fn dot_mv<const P: usize, const Q: usize>() {
    let a = inp::vec(0, P * Q);
    let am = Matrix::new(a.clone(), P as i32, Q as i32);
    let vq = inp::vec(100, Q);
    let vp = inp::vec(150, P);
    let (vqv, vpv) = (Vector::new(vq.clone()), Vector::new(vp.clone()));
    let tol = 1e-9 * amax(&a) * amax(&vq) * amax(&vp) * (P + Q) as f64;
    // A v (v in R^Q)
    let want = ref_mm(&a, &vq, P, Q, 1, false, false);
    cmp(&<Matrix as Dot<&Vector, Vector>>::dot(&am, &vqv), &want, tol, "M.dot(&v)", false, false);
    cmp(&<Matrix as Dot<Vector, Vector>>::dot_t(&am, vqv.clone()), &want, tol, "M.dot_t(v)", false, false);
    cmp(&<&Matrix as Dot<&Vector, Vector>>::dot(&&am, &vqv), &want, tol, "&M.dot(&v)", false, false);
    // A^T v (v in R^P)
    let want = ref_mm(&a, &vp, Q, P, 1, true, false);
    cmp(&<Matrix as Dot<&Vector, Vector>>::t_dot(&am, &vpv), &want, tol, "M.t_dot(&v)", true, false);
    cmp(&<&Matrix as Dot<Vector, Vector>>::t_dot_t(&&am, vpv.clone()), &want, tol, "&M.t_dot_t(v)", true, false);
    // v^T A (v in R^P)
    let want = ref_mm(&vp, &a, 1, P, Q, false, false);
    cmp(&<Vector as Dot<&Matrix, Vector>>::dot(&vpv, &am), &want, tol, "v.dot(&M)", false, false);
    cmp(&<&Vector as Dot<Matrix, Vector>>::t_dot(&&vpv, am.clone()), &want, tol, "&v.t_dot(M)", false, false);
    // v^T A^T (v in R^Q)
    let want = ref_mm(&vq, &a, 1, Q, P, false, true);
    cmp(&<Vector as Dot<&Matrix, Vector>>::dot_t(&vqv, &am), &want, tol, "v.dot_t(&M)", false, true);
    cmp(&<&Vector as Dot<&Matrix, Vector>>::t_dot_t(&&vqv, &am), &want, tol, "&v.t_dot_t(&M)", false, true);
    // v . w
    let w = inp::vec(200, Q);
    let wv = Vector::new(w.clone());
    let want = ref_mm(&vq, &w, 1, Q, 1, false, false);
    let tolv = 1e-9 * amax(&vq) * amax(&w) * Q as f64;
    vclose!(<Vector as Dot<&Vector, f64>>::dot(&vqv, &wv), want[0], tolv, "v.dot(&w)");
    vclose!(<Vector as Dot<Vector, f64>>::t_dot_t(&vqv, wv.clone()), want[0], tolv, "v.t_dot_t(w)");
    vclose!(<&Vector as Dot<&Vector, f64>>::dot_t(&&vqv, &wv), want[0], tolv, "&v.dot_t(&w)");
}
harness!(name=c05_dot_mv_11, prop=C05, mode=R, kind=normal, tier=quick, unwind=6, { dot_mv::<1, 1>() });
harness!(name=c05_dot_mv_12, prop=C05, mode=R, kind=normal, tier=quick, unwind=7, { dot_mv::<1, 2>() });
harness!(name=c05_dot_mv_21, prop=C05, mode=R, kind=normal, tier=quick, unwind=7, { dot_mv::<2, 1>() });
harness!(name=c05_dot_mv_23, prop=C05, mode=R, kind=normal, tier=quick, unwind=10, { dot_mv::<2, 3>() });
harness!(name=c05_dot_mv_32, prop=C05, mode=R, kind=normal, tier=quick, unwind=10, { dot_mv::<3, 2>() });
harness!(name=c05_dot_mv_33, prop=C05, mode=R, kind=normal, tier=thorough, unwind=13, { dot_mv::<3, 3>() });

// @claim c05_noconf_: non-conformable operands are rejected by a panic
fn noconf(which: u8) {
    let am = Matrix::new(inp::vec(0, 6), 2, 3);
    let bm = Matrix::new(inp::vec(100, 6), 2, 3);
    let v2 = Vector::new(inp::vec(200, 2));
    let v3 = Vector::new(inp::vec(210, 3));
    match which {
        0 => vmustpanic!(<Matrix as Dot<&Matrix, Matrix>>::dot(&am, &bm), "2x3 . 2x3"),
        1 => vmustpanic!(<Matrix as Dot<&Matrix, Matrix>>::t_dot_t(&am, &bm), "(2x3)^T . (2x3)^T"),
        2 => vmustpanic!(<Matrix as Dot<&Vector, Vector>>::dot(&am, &v2), "2x3 . v2"),
        3 => vmustpanic!(<Matrix as Dot<&Vector, Vector>>::t_dot(&am, &v3), "(2x3)^T . v3"),
        4 => vmustpanic!(<Vector as Dot<&Matrix, Vector>>::dot(&v3, &am), "v3 . 2x3"),
        5 => vmustpanic!(<Vector as Dot<&Matrix, Vector>>::dot_t(&v2, &am), "v2 . (2x3)^T"),
        6 => vmustpanic!(<Vector as Dot<&Vector, f64>>::dot(&v2, &v3), "v2 . v3"),
        _ => vmustpanic!(matmul(&am.data, &bm.data, 2, 2, false, false), "matmul 2x3 2x3"),
    }
}
harness!(name=c05_noconf_0, prop=C05, mode=R, kind=mustpanic, tier=quick, unwind=9, { noconf(0) });
harness!(name=c05_noconf_1, prop=C05, mode=R, kind=mustpanic, tier=quick, unwind=9, { noconf(1) });
harness!(name=c05_noconf_2, prop=C05, mode=R, kind=mustpanic, tier=quick, unwind=9, { noconf(2) });
harness!(name=c05_noconf_3, prop=C05, mode=R, kind=mustpanic, tier=quick, unwind=9, { noconf(3) });
harness!(name=c05_noconf_4, prop=C05, mode=R, kind=mustpanic, tier=quick, unwind=9, { noconf(4) });
harness!(name=c05_noconf_5, prop=C05, mode=R, kind=mustpanic, tier=quick, unwind=9, { noconf(5) });
harness!(name=c05_noconf_6, prop=C05, mode=R, kind=mustpanic, tier=quick, unwind=9, { noconf(6) });
harness!(name=c05_noconf_7, prop=C05, mode=R, kind=mustpanic, tier=quick, unwind=9, { noconf(7) });
