//! C12 Broadcast arithmetic follows NumPy semantics.
use crate::rt::inp;
use crate::{harness, vassert, vassume, vbits, vmustpanic};
use compute::linalg::*;

fn pick(v: &[f64], r: usize, c: usize, i: usize, j: usize) -> f64 {
    // element [i or 0][j or 0] of an r x c row-major matrix
    let ii = if r == 1 { 0 } else { i };
    let jj = if c == 1 { 0 } else { j };
    v[ii * c + jj]
}
fn check(got: &Matrix, a: &[f64], b: &[f64], r1: usize, c1: usize, r2: usize, c2: usize, op: u8, what: &'static str) {
    let r = if r1 > r2 { r1 } else { r2 };
    let c = if c1 > c2 { c1 } else { c2 };
    vassert!(got.nrows == r && got.ncols == c && got.data.len() == r * c, "{}: shape {}x{} (len {}) want {}x{}", what, got.nrows, got.ncols, got.data.len(), r, c);
    let mut i = 0;
    while i < r {
        let mut j = 0;
        while j < c {
            let (x, y) = (pick(a, r1, c1, i, j), pick(b, r2, c2, i, j));
            let want = match op {
                0 => x + y,
                1 => x - y,
                2 => x * y,
                _ => x / y,
            };
            vbits!(got.data[i * c + j], want, "{} op {} entry ({},{})", what, op, i, j);
            j += 1;
        }
        i += 1;
    }
}

// @bound c12_mm_: shape pair (R1xC1, R2xC2) instance, all four operators, Matrix∘Matrix in borrowed and owned forms; float operations uninterpreted (U): any values incl. NaN/inf
// @claim c12_mm_: compatible pair: no panic, result shape = element-wise max, entry (i,j) = left[i|0][j|0] op right[i|0][j|0] with operand order preserved
fn mm<const R1: usize, const C1: usize, const R2: usize, const C2: usize>() {
    let a = inp::vec(0, R1 * C1);
    let b = inp::vec(100, R2 * C2);
    let am = Matrix::new(a.clone(), R1 as i32, C1 as i32);
    let bm = Matrix::new(b.clone(), R2 as i32, C2 as i32);
    check(&(&am + &bm), &a, &b, R1, C1, R2, C2, 0, "&A + &B");
    check(&(&am - &bm), &a, &b, R1, C1, R2, C2, 1, "&A - &B");
    check(&(&am * &bm), &a, &b, R1, C1, R2, C2, 2, "&A * &B");
    check(&(&am / &bm), &a, &b, R1, C1, R2, C2, 3, "&A / &B");
    if (R1 + C1 + R2 + C2) % 3 == 0 {
        check(&(am.clone() - &bm), &a, &b, R1, C1, R2, C2, 1, "A - &B");
    } else if (R1 + C1 + R2 + C2) % 3 == 1 {
        check(&(&am / bm.clone()), &a, &b, R1, C1, R2, C2, 3, "&A / B");
    } else {
        check(&(am.clone() - bm.clone()), &a, &b, R1, C1, R2, C2, 1, "A - B");
    }
    // operands unchanged
    let mut i = 0;
    while i < R1 * C1 {
        vbits!(am.data[i], a[i], "left operand changed at {}", i);
        i += 1;
    }
    let mut i = 0;
    while i < R2 * C2 {
        vbits!(bm.data[i], b[i], "right operand changed at {}", i);
        i += 1;
    }
}
// @claim c12_bad_: incompatible pair (some dimension differs and neither side is 1): the operation panics
fn bad<const R1: usize, const C1: usize, const R2: usize, const C2: usize>(op: u8) {
    let am = Matrix::new(inp::vec(0, R1 * C1), R1 as i32, C1 as i32);
    let bm = Matrix::new(inp::vec(100, R2 * C2), R2 as i32, C2 as i32);
    match op {
        0 => vmustpanic!(&am + &bm, "incompatible +"),
        1 => vmustpanic!(&am - &bm, "incompatible -"),
        2 => vmustpanic!(&am * &bm, "incompatible *"),
        _ => vmustpanic!(&am / &bm, "incompatible /"),
    }
}

// @bound c12_mv_: Matrix RxC with a Vector of length N treated as one row (instance); four ownership forms per side; U
// @claim c12_mv_: Matrix∘Vector and Vector∘Matrix broadcast the vector as a 1xN row, operand order preserved
fn mv<const R: usize, const C: usize, const N: usize>() {
    let a = inp::vec(0, R * C);
    let v = inp::vec(100, N);
    let am = Matrix::new(a.clone(), R as i32, C as i32);
    let vv = Vector::new(v.clone());
    check(&(&am - &vv), &a, &v, R, C, 1, N, 1, "&M - &v");
    check(&(am.clone() / vv.clone()), &a, &v, R, C, 1, N, 3, "M / v");
    check(&(&am + vv.clone()), &a, &v, R, C, 1, N, 0, "&M + v");
    check(&(am.clone() * &vv), &a, &v, R, C, 1, N, 2, "M * &v");
    check(&(&vv - &am), &v, &a, 1, N, R, C, 1, "&v - &M");
    check(&(vv.clone() / am.clone()), &v, &a, 1, N, R, C, 3, "v / M");
    check(&(&vv * am.clone()), &v, &a, 1, N, R, C, 2, "&v * M");
    check(&(vv.clone() + &am), &v, &a, 1, N, R, C, 0, "v + &M");
}
harness!(name=c12_mv_233, prop=C12, mode=U, kind=normal, tier=quick, unwind=18, { mv::<2, 3, 3>() });
harness!(name=c12_mv_231, prop=C12, mode=U, kind=normal, tier=quick, unwind=18, { mv::<2, 3, 1>() });
harness!(name=c12_mv_313, prop=C12, mode=U, kind=normal, tier=quick, unwind=18, { mv::<3, 1, 3>() });
harness!(name=c12_mv_122, prop=C12, mode=U, kind=normal, tier=quick, unwind=18, { mv::<1, 2, 2>() });
harness!(name=c12_mv_111, prop=C12, mode=U, kind=normal, tier=quick, unwind=18, { mv::<1, 1, 1>() });
harness!(name=c12_mv_322, prop=C12, mode=U, kind=normal, tier=thorough, unwind=18, { mv::<3, 2, 2>() });
harness!(name=c12_mvbad_232, prop=C12, mode=U, kind=mustpanic, tier=quick, unwind=18, {
    let am = Matrix::new(inp::vec(0, 6), 2, 3);
    let vv = Vector::new(inp::vec(100, 2));
    vmustpanic!(&am - &vv, "2x3 - v2");
});
harness!(name=c12_vmbad_322, prop=C12, mode=U, kind=mustpanic, tier=quick, unwind=18, {
    let am = Matrix::new(inp::vec(0, 4), 2, 2);
    let vv = Vector::new(inp::vec(100, 3));
    vmustpanic!(&vv / &am, "v3 / 2x2");
});
harness!(name=c12_mm_11_11, prop=C12, mode=U, kind=normal, tier=quick, unwind=18, { mm::<1, 1, 1, 1>() });
harness!(name=c12_mm_11_12, prop=C12, mode=U, kind=normal, tier=rot1, unwind=18, { mm::<1, 1, 1, 2>() });
harness!(name=c12_mm_11_13, prop=C12, mode=U, kind=normal, tier=rot2, unwind=18, { mm::<1, 1, 1, 3>() });
harness!(name=c12_mm_11_21, prop=C12, mode=U, kind=normal, tier=rot0, unwind=18, { mm::<1, 1, 2, 1>() });
harness!(name=c12_mm_11_22, prop=C12, mode=U, kind=normal, tier=rot1, unwind=18, { mm::<1, 1, 2, 2>() });
harness!(name=c12_mm_11_23, prop=C12, mode=U, kind=normal, tier=quick, unwind=18, { mm::<1, 1, 2, 3>() });
harness!(name=c12_mm_11_31, prop=C12, mode=U, kind=normal, tier=rot2, unwind=18, { mm::<1, 1, 3, 1>() });
harness!(name=c12_mm_11_32, prop=C12, mode=U, kind=normal, tier=rot0, unwind=18, { mm::<1, 1, 3, 2>() });
harness!(name=c12_mm_11_33, prop=C12, mode=U, kind=normal, tier=rot1, unwind=18, { mm::<1, 1, 3, 3>() });
harness!(name=c12_mm_11_34, prop=C12, mode=U, kind=normal, tier=thorough, unwind=18, { mm::<1, 1, 3, 4>() });
harness!(name=c12_mm_11_43, prop=C12, mode=U, kind=normal, tier=thorough, unwind=18, { mm::<1, 1, 4, 3>() });
harness!(name=c12_mm_12_11, prop=C12, mode=U, kind=normal, tier=rot2, unwind=18, { mm::<1, 2, 1, 1>() });
harness!(name=c12_mm_12_12, prop=C12, mode=U, kind=normal, tier=rot0, unwind=18, { mm::<1, 2, 1, 2>() });
harness!(name=c12_bad_12_13, prop=C12, mode=U, kind=mustpanic, tier=quick, unwind=18, { bad::<1, 2, 1, 3>(0) });
harness!(name=c12_bad_12_14, prop=C12, mode=U, kind=mustpanic, tier=thorough, unwind=18, { bad::<1, 2, 1, 4>(1) });
harness!(name=c12_mm_12_21, prop=C12, mode=U, kind=normal, tier=rot1, unwind=18, { mm::<1, 2, 2, 1>() });
harness!(name=c12_mm_12_22, prop=C12, mode=U, kind=normal, tier=rot2, unwind=18, { mm::<1, 2, 2, 2>() });
harness!(name=c12_bad_12_23, prop=C12, mode=U, kind=mustpanic, tier=quick, unwind=18, { bad::<1, 2, 2, 3>(2) });
harness!(name=c12_bad_12_24, prop=C12, mode=U, kind=mustpanic, tier=thorough, unwind=18, { bad::<1, 2, 2, 4>(3) });
harness!(name=c12_mm_12_31, prop=C12, mode=U, kind=normal, tier=rot0, unwind=18, { mm::<1, 2, 3, 1>() });
harness!(name=c12_mm_12_32, prop=C12, mode=U, kind=normal, tier=quick, unwind=18, { mm::<1, 2, 3, 2>() });
harness!(name=c12_bad_12_33, prop=C12, mode=U, kind=mustpanic, tier=quick, unwind=18, { bad::<1, 2, 3, 3>(0) });
harness!(name=c12_bad_12_34, prop=C12, mode=U, kind=mustpanic, tier=thorough, unwind=18, { bad::<1, 2, 3, 4>(1) });
harness!(name=c12_mm_12_42, prop=C12, mode=U, kind=normal, tier=thorough, unwind=18, { mm::<1, 2, 4, 2>() });
harness!(name=c12_bad_12_43, prop=C12, mode=U, kind=mustpanic, tier=thorough, unwind=18, { bad::<1, 2, 4, 3>(2) });
harness!(name=c12_bad_12_44, prop=C12, mode=U, kind=mustpanic, tier=thorough, unwind=19, { bad::<1, 2, 4, 4>(3) });
harness!(name=c12_mm_13_11, prop=C12, mode=U, kind=normal, tier=rot1, unwind=18, { mm::<1, 3, 1, 1>() });
harness!(name=c12_bad_13_12, prop=C12, mode=U, kind=mustpanic, tier=quick, unwind=18, { bad::<1, 3, 1, 2>(0) });
harness!(name=c12_mm_13_13, prop=C12, mode=U, kind=normal, tier=quick, unwind=18, { mm::<1, 3, 1, 3>() });
harness!(name=c12_bad_13_14, prop=C12, mode=U, kind=mustpanic, tier=thorough, unwind=18, { bad::<1, 3, 1, 4>(1) });
harness!(name=c12_mm_13_21, prop=C12, mode=U, kind=normal, tier=rot2, unwind=18, { mm::<1, 3, 2, 1>() });
harness!(name=c12_bad_13_22, prop=C12, mode=U, kind=mustpanic, tier=quick, unwind=18, { bad::<1, 3, 2, 2>(2) });
harness!(name=c12_mm_13_23, prop=C12, mode=U, kind=normal, tier=quick, unwind=18, { mm::<1, 3, 2, 3>() });
harness!(name=c12_bad_13_24, prop=C12, mode=U, kind=mustpanic, tier=thorough, unwind=18, { bad::<1, 3, 2, 4>(3) });
harness!(name=c12_mm_13_31, prop=C12, mode=U, kind=normal, tier=quick, unwind=18, { mm::<1, 3, 3, 1>() });
harness!(name=c12_bad_13_32, prop=C12, mode=U, kind=mustpanic, tier=quick, unwind=18, { bad::<1, 3, 3, 2>(0) });
harness!(name=c12_mm_13_33, prop=C12, mode=U, kind=normal, tier=rot0, unwind=18, { mm::<1, 3, 3, 3>() });
harness!(name=c12_bad_13_34, prop=C12, mode=U, kind=mustpanic, tier=thorough, unwind=18, { bad::<1, 3, 3, 4>(1) });
harness!(name=c12_mm_13_41, prop=C12, mode=U, kind=normal, tier=thorough, unwind=18, { mm::<1, 3, 4, 1>() });
harness!(name=c12_bad_13_42, prop=C12, mode=U, kind=mustpanic, tier=thorough, unwind=18, { bad::<1, 3, 4, 2>(2) });
harness!(name=c12_bad_13_44, prop=C12, mode=U, kind=mustpanic, tier=thorough, unwind=19, { bad::<1, 3, 4, 4>(3) });
harness!(name=c12_bad_14_12, prop=C12, mode=U, kind=mustpanic, tier=thorough, unwind=18, { bad::<1, 4, 1, 2>(0) });
harness!(name=c12_bad_14_13, prop=C12, mode=U, kind=mustpanic, tier=thorough, unwind=18, { bad::<1, 4, 1, 3>(1) });
harness!(name=c12_bad_14_22, prop=C12, mode=U, kind=mustpanic, tier=thorough, unwind=18, { bad::<1, 4, 2, 2>(2) });
harness!(name=c12_bad_14_23, prop=C12, mode=U, kind=mustpanic, tier=thorough, unwind=18, { bad::<1, 4, 2, 3>(3) });
harness!(name=c12_mm_14_31, prop=C12, mode=U, kind=normal, tier=thorough, unwind=18, { mm::<1, 4, 3, 1>() });
harness!(name=c12_bad_14_32, prop=C12, mode=U, kind=mustpanic, tier=thorough, unwind=18, { bad::<1, 4, 3, 2>(0) });
harness!(name=c12_bad_14_33, prop=C12, mode=U, kind=mustpanic, tier=thorough, unwind=18, { bad::<1, 4, 3, 3>(1) });
harness!(name=c12_mm_14_34, prop=C12, mode=U, kind=normal, tier=thorough, unwind=18, { mm::<1, 4, 3, 4>() });
harness!(name=c12_bad_14_42, prop=C12, mode=U, kind=mustpanic, tier=thorough, unwind=19, { bad::<1, 4, 4, 2>(2) });
harness!(name=c12_bad_14_43, prop=C12, mode=U, kind=mustpanic, tier=thorough, unwind=19, { bad::<1, 4, 4, 3>(3) });
harness!(name=c12_mm_21_11, prop=C12, mode=U, kind=normal, tier=rot1, unwind=18, { mm::<2, 1, 1, 1>() });
harness!(name=c12_mm_21_12, prop=C12, mode=U, kind=normal, tier=rot2, unwind=18, { mm::<2, 1, 1, 2>() });
harness!(name=c12_mm_21_13, prop=C12, mode=U, kind=normal, tier=rot0, unwind=18, { mm::<2, 1, 1, 3>() });
harness!(name=c12_mm_21_21, prop=C12, mode=U, kind=normal, tier=rot1, unwind=18, { mm::<2, 1, 2, 1>() });
harness!(name=c12_mm_21_22, prop=C12, mode=U, kind=normal, tier=quick, unwind=18, { mm::<2, 1, 2, 2>() });
harness!(name=c12_mm_21_23, prop=C12, mode=U, kind=normal, tier=quick, unwind=18, { mm::<2, 1, 2, 3>() });
harness!(name=c12_mm_21_24, prop=C12, mode=U, kind=normal, tier=thorough, unwind=18, { mm::<2, 1, 2, 4>() });
harness!(name=c12_bad_21_31, prop=C12, mode=U, kind=mustpanic, tier=quick, unwind=18, { bad::<2, 1, 3, 1>(0) });
harness!(name=c12_bad_21_32, prop=C12, mode=U, kind=mustpanic, tier=quick, unwind=18, { bad::<2, 1, 3, 2>(1) });
harness!(name=c12_bad_21_33, prop=C12, mode=U, kind=mustpanic, tier=quick, unwind=18, { bad::<2, 1, 3, 3>(2) });
harness!(name=c12_bad_21_34, prop=C12, mode=U, kind=mustpanic, tier=thorough, unwind=18, { bad::<2, 1, 3, 4>(3) });
harness!(name=c12_bad_21_41, prop=C12, mode=U, kind=mustpanic, tier=thorough, unwind=18, { bad::<2, 1, 4, 1>(0) });
harness!(name=c12_bad_21_42, prop=C12, mode=U, kind=mustpanic, tier=thorough, unwind=18, { bad::<2, 1, 4, 2>(1) });
harness!(name=c12_bad_21_43, prop=C12, mode=U, kind=mustpanic, tier=thorough, unwind=18, { bad::<2, 1, 4, 3>(2) });
harness!(name=c12_bad_21_44, prop=C12, mode=U, kind=mustpanic, tier=thorough, unwind=19, { bad::<2, 1, 4, 4>(3) });
harness!(name=c12_mm_22_11, prop=C12, mode=U, kind=normal, tier=rot0, unwind=18, { mm::<2, 2, 1, 1>() });
harness!(name=c12_mm_22_12, prop=C12, mode=U, kind=normal, tier=quick, unwind=18, { mm::<2, 2, 1, 2>() });
harness!(name=c12_bad_22_13, prop=C12, mode=U, kind=mustpanic, tier=quick, unwind=18, { bad::<2, 2, 1, 3>(0) });
harness!(name=c12_bad_22_14, prop=C12, mode=U, kind=mustpanic, tier=thorough, unwind=18, { bad::<2, 2, 1, 4>(1) });
harness!(name=c12_mm_22_21, prop=C12, mode=U, kind=normal, tier=rot1, unwind=18, { mm::<2, 2, 2, 1>() });
harness!(name=c12_mm_22_22, prop=C12, mode=U, kind=normal, tier=quick, unwind=18, { mm::<2, 2, 2, 2>() });
harness!(name=c12_bad_22_23, prop=C12, mode=U, kind=mustpanic, tier=quick, unwind=18, { bad::<2, 2, 2, 3>(2) });
harness!(name=c12_bad_22_24, prop=C12, mode=U, kind=mustpanic, tier=thorough, unwind=18, { bad::<2, 2, 2, 4>(3) });
harness!(name=c12_bad_22_31, prop=C12, mode=U, kind=mustpanic, tier=quick, unwind=18, { bad::<2, 2, 3, 1>(0) });
harness!(name=c12_bad_22_32, prop=C12, mode=U, kind=mustpanic, tier=quick, unwind=18, { bad::<2, 2, 3, 2>(1) });
harness!(name=c12_bad_22_33, prop=C12, mode=U, kind=mustpanic, tier=quick, unwind=18, { bad::<2, 2, 3, 3>(2) });
harness!(name=c12_bad_22_34, prop=C12, mode=U, kind=mustpanic, tier=thorough, unwind=18, { bad::<2, 2, 3, 4>(3) });
harness!(name=c12_bad_22_41, prop=C12, mode=U, kind=mustpanic, tier=thorough, unwind=18, { bad::<2, 2, 4, 1>(0) });
harness!(name=c12_bad_22_42, prop=C12, mode=U, kind=mustpanic, tier=thorough, unwind=18, { bad::<2, 2, 4, 2>(1) });
harness!(name=c12_bad_22_43, prop=C12, mode=U, kind=mustpanic, tier=thorough, unwind=18, { bad::<2, 2, 4, 3>(2) });
harness!(name=c12_bad_22_44, prop=C12, mode=U, kind=mustpanic, tier=thorough, unwind=19, { bad::<2, 2, 4, 4>(3) });
harness!(name=c12_mm_23_11, prop=C12, mode=U, kind=normal, tier=quick, unwind=18, { mm::<2, 3, 1, 1>() });
harness!(name=c12_bad_23_12, prop=C12, mode=U, kind=mustpanic, tier=quick, unwind=18, { bad::<2, 3, 1, 2>(0) });
harness!(name=c12_mm_23_13, prop=C12, mode=U, kind=normal, tier=quick, unwind=18, { mm::<2, 3, 1, 3>() });
harness!(name=c12_bad_23_14, prop=C12, mode=U, kind=mustpanic, tier=thorough, unwind=18, { bad::<2, 3, 1, 4>(1) });
harness!(name=c12_mm_23_21, prop=C12, mode=U, kind=normal, tier=quick, unwind=18, { mm::<2, 3, 2, 1>() });
harness!(name=c12_bad_23_22, prop=C12, mode=U, kind=mustpanic, tier=quick, unwind=18, { bad::<2, 3, 2, 2>(2) });
harness!(name=c12_mm_23_23, prop=C12, mode=U, kind=normal, tier=rot0, unwind=18, { mm::<2, 3, 2, 3>() });
harness!(name=c12_bad_23_24, prop=C12, mode=U, kind=mustpanic, tier=thorough, unwind=18, { bad::<2, 3, 2, 4>(3) });
harness!(name=c12_bad_23_31, prop=C12, mode=U, kind=mustpanic, tier=quick, unwind=18, { bad::<2, 3, 3, 1>(0) });
harness!(name=c12_bad_23_32, prop=C12, mode=U, kind=mustpanic, tier=quick, unwind=18, { bad::<2, 3, 3, 2>(1) });
harness!(name=c12_bad_23_33, prop=C12, mode=U, kind=mustpanic, tier=quick, unwind=18, { bad::<2, 3, 3, 3>(2) });
harness!(name=c12_bad_23_34, prop=C12, mode=U, kind=mustpanic, tier=thorough, unwind=18, { bad::<2, 3, 3, 4>(3) });
harness!(name=c12_bad_23_41, prop=C12, mode=U, kind=mustpanic, tier=thorough, unwind=18, { bad::<2, 3, 4, 1>(0) });
harness!(name=c12_bad_23_42, prop=C12, mode=U, kind=mustpanic, tier=thorough, unwind=18, { bad::<2, 3, 4, 2>(1) });
harness!(name=c12_bad_23_43, prop=C12, mode=U, kind=mustpanic, tier=thorough, unwind=18, { bad::<2, 3, 4, 3>(2) });
harness!(name=c12_bad_23_44, prop=C12, mode=U, kind=mustpanic, tier=thorough, unwind=19, { bad::<2, 3, 4, 4>(3) });
harness!(name=c12_bad_24_12, prop=C12, mode=U, kind=mustpanic, tier=thorough, unwind=18, { bad::<2, 4, 1, 2>(0) });
harness!(name=c12_bad_24_13, prop=C12, mode=U, kind=mustpanic, tier=thorough, unwind=18, { bad::<2, 4, 1, 3>(1) });
harness!(name=c12_mm_24_21, prop=C12, mode=U, kind=normal, tier=thorough, unwind=18, { mm::<2, 4, 2, 1>() });
harness!(name=c12_bad_24_22, prop=C12, mode=U, kind=mustpanic, tier=thorough, unwind=18, { bad::<2, 4, 2, 2>(2) });
harness!(name=c12_bad_24_23, prop=C12, mode=U, kind=mustpanic, tier=thorough, unwind=18, { bad::<2, 4, 2, 3>(3) });
harness!(name=c12_mm_24_24, prop=C12, mode=U, kind=normal, tier=thorough, unwind=18, { mm::<2, 4, 2, 4>() });
harness!(name=c12_bad_24_31, prop=C12, mode=U, kind=mustpanic, tier=thorough, unwind=18, { bad::<2, 4, 3, 1>(0) });
harness!(name=c12_bad_24_32, prop=C12, mode=U, kind=mustpanic, tier=thorough, unwind=18, { bad::<2, 4, 3, 2>(1) });
harness!(name=c12_bad_24_33, prop=C12, mode=U, kind=mustpanic, tier=thorough, unwind=18, { bad::<2, 4, 3, 3>(2) });
harness!(name=c12_bad_24_34, prop=C12, mode=U, kind=mustpanic, tier=thorough, unwind=18, { bad::<2, 4, 3, 4>(3) });
harness!(name=c12_bad_24_41, prop=C12, mode=U, kind=mustpanic, tier=thorough, unwind=19, { bad::<2, 4, 4, 1>(0) });
harness!(name=c12_bad_24_42, prop=C12, mode=U, kind=mustpanic, tier=thorough, unwind=19, { bad::<2, 4, 4, 2>(1) });
harness!(name=c12_bad_24_43, prop=C12, mode=U, kind=mustpanic, tier=thorough, unwind=19, { bad::<2, 4, 4, 3>(2) });
harness!(name=c12_bad_24_44, prop=C12, mode=U, kind=mustpanic, tier=thorough, unwind=19, { bad::<2, 4, 4, 4>(3) });
harness!(name=c12_mm_31_11, prop=C12, mode=U, kind=normal, tier=rot1, unwind=18, { mm::<3, 1, 1, 1>() });
harness!(name=c12_mm_31_12, prop=C12, mode=U, kind=normal, tier=rot2, unwind=18, { mm::<3, 1, 1, 2>() });
harness!(name=c12_mm_31_13, prop=C12, mode=U, kind=normal, tier=quick, unwind=18, { mm::<3, 1, 1, 3>() });
harness!(name=c12_mm_31_14, prop=C12, mode=U, kind=normal, tier=thorough, unwind=18, { mm::<3, 1, 1, 4>() });
harness!(name=c12_bad_31_21, prop=C12, mode=U, kind=mustpanic, tier=quick, unwind=18, { bad::<3, 1, 2, 1>(0) });
harness!(name=c12_bad_31_22, prop=C12, mode=U, kind=mustpanic, tier=quick, unwind=18, { bad::<3, 1, 2, 2>(1) });
harness!(name=c12_bad_31_23, prop=C12, mode=U, kind=mustpanic, tier=quick, unwind=18, { bad::<3, 1, 2, 3>(2) });
harness!(name=c12_bad_31_24, prop=C12, mode=U, kind=mustpanic, tier=thorough, unwind=18, { bad::<3, 1, 2, 4>(3) });
harness!(name=c12_mm_31_31, prop=C12, mode=U, kind=normal, tier=rot0, unwind=18, { mm::<3, 1, 3, 1>() });
harness!(name=c12_mm_31_32, prop=C12, mode=U, kind=normal, tier=quick, unwind=18, { mm::<3, 1, 3, 2>() });
harness!(name=c12_mm_31_33, prop=C12, mode=U, kind=normal, tier=quick, unwind=18, { mm::<3, 1, 3, 3>() });
harness!(name=c12_bad_31_41, prop=C12, mode=U, kind=mustpanic, tier=thorough, unwind=18, { bad::<3, 1, 4, 1>(0) });
harness!(name=c12_bad_31_42, prop=C12, mode=U, kind=mustpanic, tier=thorough, unwind=18, { bad::<3, 1, 4, 2>(1) });
harness!(name=c12_bad_31_43, prop=C12, mode=U, kind=mustpanic, tier=thorough, unwind=18, { bad::<3, 1, 4, 3>(2) });
harness!(name=c12_bad_31_44, prop=C12, mode=U, kind=mustpanic, tier=thorough, unwind=19, { bad::<3, 1, 4, 4>(3) });
harness!(name=c12_mm_32_11, prop=C12, mode=U, kind=normal, tier=rot2, unwind=18, { mm::<3, 2, 1, 1>() });
harness!(name=c12_mm_32_12, prop=C12, mode=U, kind=normal, tier=quick, unwind=18, { mm::<3, 2, 1, 2>() });
harness!(name=c12_bad_32_13, prop=C12, mode=U, kind=mustpanic, tier=quick, unwind=18, { bad::<3, 2, 1, 3>(0) });
harness!(name=c12_bad_32_14, prop=C12, mode=U, kind=mustpanic, tier=thorough, unwind=18, { bad::<3, 2, 1, 4>(1) });
harness!(name=c12_bad_32_21, prop=C12, mode=U, kind=mustpanic, tier=quick, unwind=18, { bad::<3, 2, 2, 1>(2) });
harness!(name=c12_bad_32_22, prop=C12, mode=U, kind=mustpanic, tier=quick, unwind=18, { bad::<3, 2, 2, 2>(3) });
harness!(name=c12_bad_32_23, prop=C12, mode=U, kind=mustpanic, tier=quick, unwind=18, { bad::<3, 2, 2, 3>(0) });
harness!(name=c12_bad_32_24, prop=C12, mode=U, kind=mustpanic, tier=thorough, unwind=18, { bad::<3, 2, 2, 4>(1) });
harness!(name=c12_mm_32_31, prop=C12, mode=U, kind=normal, tier=quick, unwind=18, { mm::<3, 2, 3, 1>() });
harness!(name=c12_mm_32_32, prop=C12, mode=U, kind=normal, tier=rot1, unwind=18, { mm::<3, 2, 3, 2>() });
harness!(name=c12_bad_32_33, prop=C12, mode=U, kind=mustpanic, tier=quick, unwind=18, { bad::<3, 2, 3, 3>(2) });
harness!(name=c12_bad_32_34, prop=C12, mode=U, kind=mustpanic, tier=thorough, unwind=18, { bad::<3, 2, 3, 4>(3) });
harness!(name=c12_bad_32_41, prop=C12, mode=U, kind=mustpanic, tier=thorough, unwind=18, { bad::<3, 2, 4, 1>(0) });
harness!(name=c12_bad_32_42, prop=C12, mode=U, kind=mustpanic, tier=thorough, unwind=18, { bad::<3, 2, 4, 2>(1) });
harness!(name=c12_bad_32_43, prop=C12, mode=U, kind=mustpanic, tier=thorough, unwind=18, { bad::<3, 2, 4, 3>(2) });
harness!(name=c12_bad_32_44, prop=C12, mode=U, kind=mustpanic, tier=thorough, unwind=19, { bad::<3, 2, 4, 4>(3) });
harness!(name=c12_mm_33_11, prop=C12, mode=U, kind=normal, tier=rot2, unwind=18, { mm::<3, 3, 1, 1>() });
harness!(name=c12_bad_33_12, prop=C12, mode=U, kind=mustpanic, tier=quick, unwind=18, { bad::<3, 3, 1, 2>(0) });
harness!(name=c12_mm_33_13, prop=C12, mode=U, kind=normal, tier=rot0, unwind=18, { mm::<3, 3, 1, 3>() });
harness!(name=c12_bad_33_14, prop=C12, mode=U, kind=mustpanic, tier=thorough, unwind=18, { bad::<3, 3, 1, 4>(1) });
harness!(name=c12_bad_33_21, prop=C12, mode=U, kind=mustpanic, tier=quick, unwind=18, { bad::<3, 3, 2, 1>(2) });
harness!(name=c12_bad_33_22, prop=C12, mode=U, kind=mustpanic, tier=quick, unwind=18, { bad::<3, 3, 2, 2>(3) });
harness!(name=c12_bad_33_23, prop=C12, mode=U, kind=mustpanic, tier=quick, unwind=18, { bad::<3, 3, 2, 3>(0) });
harness!(name=c12_bad_33_24, prop=C12, mode=U, kind=mustpanic, tier=thorough, unwind=18, { bad::<3, 3, 2, 4>(1) });
harness!(name=c12_mm_33_31, prop=C12, mode=U, kind=normal, tier=quick, unwind=18, { mm::<3, 3, 3, 1>() });
harness!(name=c12_bad_33_32, prop=C12, mode=U, kind=mustpanic, tier=quick, unwind=18, { bad::<3, 3, 3, 2>(2) });
harness!(name=c12_mm_33_33, prop=C12, mode=U, kind=normal, tier=quick, unwind=18, { mm::<3, 3, 3, 3>() });
harness!(name=c12_bad_33_34, prop=C12, mode=U, kind=mustpanic, tier=thorough, unwind=18, { bad::<3, 3, 3, 4>(3) });
harness!(name=c12_bad_33_41, prop=C12, mode=U, kind=mustpanic, tier=thorough, unwind=18, { bad::<3, 3, 4, 1>(0) });
harness!(name=c12_bad_33_42, prop=C12, mode=U, kind=mustpanic, tier=thorough, unwind=18, { bad::<3, 3, 4, 2>(1) });
harness!(name=c12_bad_33_43, prop=C12, mode=U, kind=mustpanic, tier=thorough, unwind=18, { bad::<3, 3, 4, 3>(2) });
harness!(name=c12_bad_33_44, prop=C12, mode=U, kind=mustpanic, tier=thorough, unwind=19, { bad::<3, 3, 4, 4>(3) });
harness!(name=c12_mm_34_11, prop=C12, mode=U, kind=normal, tier=thorough, unwind=18, { mm::<3, 4, 1, 1>() });
harness!(name=c12_bad_34_12, prop=C12, mode=U, kind=mustpanic, tier=thorough, unwind=18, { bad::<3, 4, 1, 2>(0) });
harness!(name=c12_bad_34_13, prop=C12, mode=U, kind=mustpanic, tier=thorough, unwind=18, { bad::<3, 4, 1, 3>(1) });
harness!(name=c12_mm_34_14, prop=C12, mode=U, kind=normal, tier=thorough, unwind=18, { mm::<3, 4, 1, 4>() });
harness!(name=c12_bad_34_21, prop=C12, mode=U, kind=mustpanic, tier=thorough, unwind=18, { bad::<3, 4, 2, 1>(2) });
harness!(name=c12_bad_34_22, prop=C12, mode=U, kind=mustpanic, tier=thorough, unwind=18, { bad::<3, 4, 2, 2>(3) });
harness!(name=c12_bad_34_23, prop=C12, mode=U, kind=mustpanic, tier=thorough, unwind=18, { bad::<3, 4, 2, 3>(0) });
harness!(name=c12_bad_34_24, prop=C12, mode=U, kind=mustpanic, tier=thorough, unwind=18, { bad::<3, 4, 2, 4>(1) });
harness!(name=c12_bad_34_32, prop=C12, mode=U, kind=mustpanic, tier=thorough, unwind=18, { bad::<3, 4, 3, 2>(2) });
harness!(name=c12_bad_34_33, prop=C12, mode=U, kind=mustpanic, tier=thorough, unwind=18, { bad::<3, 4, 3, 3>(3) });
harness!(name=c12_bad_34_41, prop=C12, mode=U, kind=mustpanic, tier=thorough, unwind=19, { bad::<3, 4, 4, 1>(0) });
harness!(name=c12_bad_34_42, prop=C12, mode=U, kind=mustpanic, tier=thorough, unwind=19, { bad::<3, 4, 4, 2>(1) });
harness!(name=c12_bad_34_43, prop=C12, mode=U, kind=mustpanic, tier=thorough, unwind=19, { bad::<3, 4, 4, 3>(2) });
harness!(name=c12_bad_34_44, prop=C12, mode=U, kind=mustpanic, tier=thorough, unwind=19, { bad::<3, 4, 4, 4>(3) });
harness!(name=c12_mm_41_13, prop=C12, mode=U, kind=normal, tier=thorough, unwind=18, { mm::<4, 1, 1, 3>() });
harness!(name=c12_bad_41_21, prop=C12, mode=U, kind=mustpanic, tier=thorough, unwind=18, { bad::<4, 1, 2, 1>(0) });
harness!(name=c12_bad_41_22, prop=C12, mode=U, kind=mustpanic, tier=thorough, unwind=18, { bad::<4, 1, 2, 2>(1) });
harness!(name=c12_bad_41_23, prop=C12, mode=U, kind=mustpanic, tier=thorough, unwind=18, { bad::<4, 1, 2, 3>(2) });
harness!(name=c12_bad_41_24, prop=C12, mode=U, kind=mustpanic, tier=thorough, unwind=19, { bad::<4, 1, 2, 4>(3) });
harness!(name=c12_bad_41_31, prop=C12, mode=U, kind=mustpanic, tier=thorough, unwind=18, { bad::<4, 1, 3, 1>(0) });
harness!(name=c12_bad_41_32, prop=C12, mode=U, kind=mustpanic, tier=thorough, unwind=18, { bad::<4, 1, 3, 2>(1) });
harness!(name=c12_bad_41_33, prop=C12, mode=U, kind=mustpanic, tier=thorough, unwind=18, { bad::<4, 1, 3, 3>(2) });
harness!(name=c12_bad_41_34, prop=C12, mode=U, kind=mustpanic, tier=thorough, unwind=19, { bad::<4, 1, 3, 4>(3) });
harness!(name=c12_mm_41_43, prop=C12, mode=U, kind=normal, tier=thorough, unwind=18, { mm::<4, 1, 4, 3>() });
harness!(name=c12_mm_42_12, prop=C12, mode=U, kind=normal, tier=thorough, unwind=18, { mm::<4, 2, 1, 2>() });
harness!(name=c12_bad_42_13, prop=C12, mode=U, kind=mustpanic, tier=thorough, unwind=18, { bad::<4, 2, 1, 3>(0) });
harness!(name=c12_bad_42_14, prop=C12, mode=U, kind=mustpanic, tier=thorough, unwind=19, { bad::<4, 2, 1, 4>(1) });
harness!(name=c12_bad_42_21, prop=C12, mode=U, kind=mustpanic, tier=thorough, unwind=18, { bad::<4, 2, 2, 1>(2) });
harness!(name=c12_bad_42_22, prop=C12, mode=U, kind=mustpanic, tier=thorough, unwind=18, { bad::<4, 2, 2, 2>(3) });
harness!(name=c12_bad_42_23, prop=C12, mode=U, kind=mustpanic, tier=thorough, unwind=18, { bad::<4, 2, 2, 3>(0) });
harness!(name=c12_bad_42_24, prop=C12, mode=U, kind=mustpanic, tier=thorough, unwind=19, { bad::<4, 2, 2, 4>(1) });
harness!(name=c12_bad_42_31, prop=C12, mode=U, kind=mustpanic, tier=thorough, unwind=18, { bad::<4, 2, 3, 1>(2) });
harness!(name=c12_bad_42_32, prop=C12, mode=U, kind=mustpanic, tier=thorough, unwind=18, { bad::<4, 2, 3, 2>(3) });
harness!(name=c12_bad_42_33, prop=C12, mode=U, kind=mustpanic, tier=thorough, unwind=18, { bad::<4, 2, 3, 3>(0) });
harness!(name=c12_bad_42_34, prop=C12, mode=U, kind=mustpanic, tier=thorough, unwind=19, { bad::<4, 2, 3, 4>(1) });
harness!(name=c12_mm_42_42, prop=C12, mode=U, kind=normal, tier=thorough, unwind=18, { mm::<4, 2, 4, 2>() });
harness!(name=c12_bad_42_43, prop=C12, mode=U, kind=mustpanic, tier=thorough, unwind=18, { bad::<4, 2, 4, 3>(2) });
harness!(name=c12_bad_42_44, prop=C12, mode=U, kind=mustpanic, tier=thorough, unwind=19, { bad::<4, 2, 4, 4>(3) });
harness!(name=c12_mm_43_11, prop=C12, mode=U, kind=normal, tier=thorough, unwind=18, { mm::<4, 3, 1, 1>() });
harness!(name=c12_bad_43_12, prop=C12, mode=U, kind=mustpanic, tier=thorough, unwind=18, { bad::<4, 3, 1, 2>(0) });
harness!(name=c12_bad_43_14, prop=C12, mode=U, kind=mustpanic, tier=thorough, unwind=19, { bad::<4, 3, 1, 4>(1) });
harness!(name=c12_bad_43_21, prop=C12, mode=U, kind=mustpanic, tier=thorough, unwind=18, { bad::<4, 3, 2, 1>(2) });
harness!(name=c12_bad_43_22, prop=C12, mode=U, kind=mustpanic, tier=thorough, unwind=18, { bad::<4, 3, 2, 2>(3) });
harness!(name=c12_bad_43_23, prop=C12, mode=U, kind=mustpanic, tier=thorough, unwind=18, { bad::<4, 3, 2, 3>(0) });
harness!(name=c12_bad_43_24, prop=C12, mode=U, kind=mustpanic, tier=thorough, unwind=19, { bad::<4, 3, 2, 4>(1) });
harness!(name=c12_bad_43_31, prop=C12, mode=U, kind=mustpanic, tier=thorough, unwind=18, { bad::<4, 3, 3, 1>(2) });
harness!(name=c12_bad_43_32, prop=C12, mode=U, kind=mustpanic, tier=thorough, unwind=18, { bad::<4, 3, 3, 2>(3) });
harness!(name=c12_bad_43_33, prop=C12, mode=U, kind=mustpanic, tier=thorough, unwind=18, { bad::<4, 3, 3, 3>(0) });
harness!(name=c12_bad_43_34, prop=C12, mode=U, kind=mustpanic, tier=thorough, unwind=19, { bad::<4, 3, 3, 4>(1) });
harness!(name=c12_mm_43_41, prop=C12, mode=U, kind=normal, tier=thorough, unwind=18, { mm::<4, 3, 4, 1>() });
harness!(name=c12_bad_43_42, prop=C12, mode=U, kind=mustpanic, tier=thorough, unwind=18, { bad::<4, 3, 4, 2>(2) });
harness!(name=c12_bad_43_44, prop=C12, mode=U, kind=mustpanic, tier=thorough, unwind=19, { bad::<4, 3, 4, 4>(3) });
harness!(name=c12_bad_44_12, prop=C12, mode=U, kind=mustpanic, tier=thorough, unwind=19, { bad::<4, 4, 1, 2>(0) });
harness!(name=c12_bad_44_13, prop=C12, mode=U, kind=mustpanic, tier=thorough, unwind=19, { bad::<4, 4, 1, 3>(1) });
harness!(name=c12_bad_44_21, prop=C12, mode=U, kind=mustpanic, tier=thorough, unwind=19, { bad::<4, 4, 2, 1>(2) });
harness!(name=c12_bad_44_22, prop=C12, mode=U, kind=mustpanic, tier=thorough, unwind=19, { bad::<4, 4, 2, 2>(3) });
harness!(name=c12_bad_44_23, prop=C12, mode=U, kind=mustpanic, tier=thorough, unwind=19, { bad::<4, 4, 2, 3>(0) });
harness!(name=c12_bad_44_24, prop=C12, mode=U, kind=mustpanic, tier=thorough, unwind=19, { bad::<4, 4, 2, 4>(1) });
harness!(name=c12_bad_44_31, prop=C12, mode=U, kind=mustpanic, tier=thorough, unwind=19, { bad::<4, 4, 3, 1>(2) });
harness!(name=c12_bad_44_32, prop=C12, mode=U, kind=mustpanic, tier=thorough, unwind=19, { bad::<4, 4, 3, 2>(3) });
harness!(name=c12_bad_44_33, prop=C12, mode=U, kind=mustpanic, tier=thorough, unwind=19, { bad::<4, 4, 3, 3>(0) });
harness!(name=c12_bad_44_34, prop=C12, mode=U, kind=mustpanic, tier=thorough, unwind=19, { bad::<4, 4, 3, 4>(1) });
harness!(name=c12_bad_44_42, prop=C12, mode=U, kind=mustpanic, tier=thorough, unwind=19, { bad::<4, 4, 4, 2>(2) });
harness!(name=c12_bad_44_43, prop=C12, mode=U, kind=mustpanic, tier=thorough, unwind=19, { bad::<4, 4, 4, 3>(3) });
