//! C08 Descriptive statistics equal their textbook definitions.
use crate::rt::inp;
use crate::{harness, vassert, vassume, vclose, vle, vbits};
use compute::statistics::*;

fn ref_mean(d: &[f64]) -> f64 {
    let mut s = 0.0;
    for x in d { s += *x; }
    s / d.len() as f64
}
fn ref_var(d: &[f64], ddof: usize) -> f64 {
    let m = ref_mean(d);
    let mut s = 0.0;
    for x in d { s += (*x - m) * (*x - m); }
    s / (d.len() - ddof) as f64
}
fn scale(d: &[f64]) -> f64 {
    let mut s: f64 = 1.0;
    for x in d { s = s.max(x.abs()); }
    s
}

fn moments<const N: usize>() {
    let d: [f64; N] = inp::arr(0);
    let n = N as f64;
    let sc = scale(&d);
    let tol = 16.0 * n * f64::EPSILON * sc;
    vclose!(mean(&d), ref_mean(&d), tol, "mean n={}", N);
    vclose!(welford_mean(&d), ref_mean(&d), tol, "welford_mean n={}", N);
    vclose!(var(&d), ref_var(&d, 0), tol * sc, "var n={}", N);
    if N >= 2 {
        vclose!(sample_var(&d), ref_var(&d, 1), tol * sc, "sample_var n={}", N);
    }
}

harness!(name=c08_moments_1, prop=C08, mode=R, kind=normal, tier=quick, unwind=3, { moments::<1>() });
harness!(name=c08_moments_2, prop=C08, mode=R, kind=normal, tier=quick, unwind=4, { moments::<2>() });
harness!(name=c08_moments_4, prop=C08, mode=R, kind=normal, tier=quick, unwind=6, { moments::<4>() });
