//! C08 Descriptive statistics equal their textbook definitions.
use crate::rt::inp;
use crate::{harness, vassert, vassume, vbits, vclose, vle};
use compute::linalg::Vector;
use compute::statistics::*;

fn ref_mean(d: &[f64]) -> f64 {
    let mut s = 0.0;
    for x in d {
        s += *x;
    }
    s / d.len() as f64
}
fn ref_cov(x: &[f64], y: &[f64], ddof: usize) -> f64 {
    let (mx, my) = (ref_mean(x), ref_mean(y));
    let mut s = 0.0;
    let mut i = 0;
    while i < x.len() {
        s += (x[i] - mx) * (y[i] - my);
        i += 1;
    }
    s / (x.len() - ddof) as f64
}
fn scale(d: &[f64]) -> f64 {
    let mut s: f64 = 1.0;
    for x in d {
        s = s.max(x.abs());
    }
    s
}

// @bound c08_moments_: data length N (instance), every real data vector
// @claim c08_moments_: mean, welford_mean, var, sample_var, std, sample_std equal the textbook definitions (R)
fn moments<const N: usize>() {
    let d: [f64; N] = inp::arr(0);
    let sc = scale(&d);
    let tol = 1e-9 * sc;
    vclose!(mean(&d), ref_mean(&d), tol, "mean n={}", N);
    vclose!(welford_mean(&d), ref_mean(&d), tol, "welford_mean n={}", N);
    vclose!(var(&d), ref_cov(&d, &d, 0), tol * sc, "var n={}", N);
    let s = std(&d);
    vassert!(s >= 0.0, "std negative");
    vclose!(s * s, ref_cov(&d, &d, 0), tol * sc, "std^2 n={}", N);
    if N >= 2 {
        vclose!(sample_var(&d), ref_cov(&d, &d, 1), tol * sc, "sample_var n={}", N);
        let s = sample_std(&d);
        vassert!(s >= 0.0, "sample_std negative");
        vclose!(s * s, ref_cov(&d, &d, 1), tol * sc, "sample_std^2 n={}", N);
    }
    // method forms on Vector are the same functions
    let v = Vector::new(d.to_vec());
    vclose!(v.mean(), ref_mean(&d), tol, "Vector::mean");
    vclose!(v.var(), ref_cov(&d, &d, 0), tol * sc, "Vector::var");
}
harness!(name=c08_moments_1, prop=C08, mode=R, kind=normal, tier=quick, unwind=3, { moments::<1>() });
harness!(name=c08_moments_2, prop=C08, mode=R, kind=normal, tier=quick, unwind=4, { moments::<2>() });
harness!(name=c08_moments_3, prop=C08, mode=R, kind=normal, tier=quick, unwind=5, { moments::<3>() });
harness!(name=c08_moments_4, prop=C08, mode=R, kind=normal, tier=quick, unwind=6, { moments::<4>() });
harness!(name=c08_moments_5, prop=C08, mode=R, kind=normal, tier=quick, unwind=7, { moments::<5>() });
harness!(name=c08_moments_6, prop=C08, mode=R, kind=normal, tier=quick, unwind=8, { moments::<6>() });
harness!(name=c08_moments_8, prop=C08, mode=R, kind=normal, tier=quick, unwind=10, { moments::<8>() });

// @bound c08_cov_: paired data of length N (instance), every real x, y
// @claim c08_cov_: the four covariance functions equal the textbook population/sample covariance (R)
fn cov<const N: usize>(which: u8) {
    let x: [f64; N] = inp::arr(0);
    let y: [f64; N] = inp::arr(100);
    let sc = scale(&x) * scale(&y);
    let tol = 1e-9 * sc;
    match which {
        0 => vclose!(covariance(&x, &y), ref_cov(&x, &y, 0), tol, "covariance n={}", N),
        1 => vclose!(sample_covariance(&x, &y), ref_cov(&x, &y, 1), tol, "sample_covariance n={}", N),
        2 => vclose!(sample_covariance_onepass(&x, &y), ref_cov(&x, &y, 1), tol, "sample_covariance_onepass n={}", N),
        _ => vclose!(sample_covariance_online(&x, &y), ref_cov(&x, &y, 1), tol, "sample_covariance_online n={}", N),
    }
}
harness!(name=c08_cov_pop_1, prop=C08, mode=R, kind=normal, tier=quick, unwind=3, { cov::<1>(0) });
harness!(name=c08_cov_pop_2, prop=C08, mode=R, kind=normal, tier=quick, unwind=4, { cov::<2>(0) });
harness!(name=c08_cov_pop_3, prop=C08, mode=R, kind=normal, tier=quick, unwind=5, { cov::<3>(0) });
harness!(name=c08_cov_pop_5, prop=C08, mode=R, kind=normal, tier=quick, unwind=7, { cov::<5>(0) });
harness!(name=c08_cov_sample_2, prop=C08, mode=R, kind=normal, tier=quick, unwind=4, { cov::<2>(1) });
harness!(name=c08_cov_sample_3, prop=C08, mode=R, kind=normal, tier=quick, unwind=5, { cov::<3>(1) });
harness!(name=c08_cov_sample_5, prop=C08, mode=R, kind=normal, tier=quick, unwind=7, { cov::<5>(1) });
harness!(name=c08_cov_onepass_2, prop=C08, mode=R, kind=normal, tier=quick, unwind=4, { cov::<2>(2) });
harness!(name=c08_cov_onepass_3, prop=C08, mode=R, kind=normal, tier=quick, unwind=5, { cov::<3>(2) });
harness!(name=c08_cov_onepass_5, prop=C08, mode=R, kind=normal, tier=quick, unwind=7, { cov::<5>(2) });
harness!(name=c08_cov_online_2, prop=C08, mode=R, kind=normal, tier=quick, unwind=4, { cov::<2>(3) });
harness!(name=c08_cov_online_3, prop=C08, mode=R, kind=normal, tier=quick, unwind=5, { cov::<3>(3) });
harness!(name=c08_cov_online_5, prop=C08, mode=R, kind=normal, tier=quick, unwind=7, { cov::<5>(3) });
harness!(name=c08_cov_pop_8, prop=C08, mode=R, kind=normal, tier=quick, unwind=10, { cov::<8>(0) });
harness!(name=c08_cov_sample_8, prop=C08, mode=R, kind=normal, tier=thorough, unwind=10, { cov::<8>(1) });
harness!(name=c08_cov_onepass_8, prop=C08, mode=R, kind=normal, tier=thorough, unwind=10, { cov::<8>(2) });
harness!(name=c08_cov_online_8, prop=C08, mode=R, kind=normal, tier=quick, unwind=10, { cov::<8>(3) });

// @bound c08_relations_: length N, two-run relations with symbolic shift c and scales a, b
// @claim c08_relations_: var(x+c)=var(x), var(ax)=a^2 var(x), cov(ax,by)=ab cov(x,y), cov(x+c,y)=cov(x,y) (R)
fn relations<const N: usize>() {
    let x: [f64; N] = inp::arr(0);
    let y: [f64; N] = inp::arr(100);
    let (a, b, c) = (inp::f64(200), inp::f64(201), inp::f64(202));
    let mut xs = [0.0; N];
    let mut xa = [0.0; N];
    let mut yb = [0.0; N];
    let mut i = 0;
    while i < N {
        xs[i] = x[i] + c;
        xa[i] = a * x[i];
        yb[i] = b * y[i];
        i += 1;
    }
    let sc = (scale(&x) + c.abs()) * (1.0 + a.abs()) * scale(&y) * (1.0 + b.abs()) * (scale(&x) + c.abs());
    let tol = 1e-7 * sc;
    vclose!(var(&xs), var(&x), tol, "var shift");
    vclose!(var(&xa), a * a * var(&x), tol, "var scale");
    vclose!(sample_var(&xs), sample_var(&x), tol, "sample_var shift");
    vclose!(covariance(&xs, &y), covariance(&x, &y), tol, "cov shift");
    vclose!(covariance(&xa, &yb), a * b * covariance(&x, &y), tol, "cov bilinear");
    vclose!(sample_covariance(&xs, &y), sample_covariance(&x, &y), tol, "sample_cov shift");
}
harness!(name=c08_relations_2, prop=C08, mode=R, kind=normal, tier=quick, unwind=4, { relations::<2>() });
harness!(name=c08_relations_3, prop=C08, mode=R, kind=normal, tier=quick, unwind=5, { relations::<3>() });
harness!(name=c08_relations_4, prop=C08, mode=R, kind=normal, tier=thorough, unwind=6, { relations::<4>() });

// @bound c08_order_: length N, every finite f64 data vector (bit-precise, incl. ±0, subnormals, ties)
// @claim c08_order_: min/max are attained and bound every element; argmin/argmax are the first index attaining them (R; exact here: the code only compares and moves finite floats, and IEEE comparison of finite values is real comparison)
// @assume c08_order_: data finite (the property quantifies over finite data; with +inf present argmin's f64::MAX seed is not replaced)
fn order<const N: usize>() {
    let d: [f64; N] = inp::arr(0);
    let mut i = 0;
    while i < N {
        vassume!(d[i].is_finite());
        i += 1;
    }
    let (mn, mx, amn, amx) = (min(&d), max(&d), argmin(&d), argmax(&d));
    vassert!(amn < N && amx < N, "arg index out of range");
    let mut hit_mn = false;
    let mut hit_mx = false;
    let mut i = 0;
    while i < N {
        vassert!(mn <= d[i], "min {} > d[{}]", mn, i);
        vassert!(mx >= d[i], "max {} < d[{}]", mx, i);
        hit_mn |= mn == d[i];
        hit_mx |= mx == d[i];
        vassert!(d[amn] <= d[i], "argmin {} not minimal vs {}", amn, i);
        vassert!(d[amx] >= d[i], "argmax {} not maximal vs {}", amx, i);
        if i < amn {
            vassert!(d[i] > d[amn], "argmin {} is not the first occurrence ({})", amn, i);
        }
        if i < amx {
            vassert!(d[i] < d[amx], "argmax {} is not the first occurrence ({})", amx, i);
        }
        i += 1;
    }
    vassert!(hit_mn && hit_mx, "min/max not attained");
    let v = Vector::new(d.to_vec());
    vassert!(v.argmin() == amn && v.argmax() == amx, "Vector::argmin/argmax differ");
    vassert!(v.min() == mn && v.max() == mx, "Vector::min/max differ");
}
harness!(name=c08_order_1, prop=C08, mode=R, kind=normal, tier=quick, unwind=3, { order::<1>() });
harness!(name=c08_order_2, prop=C08, mode=R, kind=normal, tier=quick, unwind=4, { order::<2>() });
harness!(name=c08_order_3, prop=C08, mode=R, kind=normal, tier=quick, unwind=5, { order::<3>() });
harness!(name=c08_order_4, prop=C08, mode=R, kind=normal, tier=quick, unwind=6, { order::<4>() });
harness!(name=c08_order_6, prop=C08, mode=R, kind=normal, tier=quick, unwind=8, { order::<6>() });
harness!(name=c08_order_9, prop=C08, mode=R, kind=normal, tier=quick, unwind=11, { order::<9>() });

// @bound c08_hist_: N bin edges (instance), symbolic and not necessarily uniform
// @claim c08_hist_: centre i equals (e[i]+e[i+1])/2 and there are N-1 centres (R)
fn hist<const N: usize>() {
    let e: [f64; N] = inp::arr(0);
    let c = hist_bin_centers(&e);
    vassert!(c.len() == N - 1, "hist_bin_centers length {} for {} edges", c.len(), N);
    let tol = 1e-9 * scale(&e);
    let mut i = 0;
    while i + 1 < N {
        vclose!(c[i], (e[i] + e[i + 1]) / 2.0, tol, "bin centre {}", i);
        i += 1;
    }
}
harness!(name=c08_hist_2, prop=C08, mode=R, kind=normal, tier=quick, unwind=4, { hist::<2>() });
harness!(name=c08_hist_3, prop=C08, mode=R, kind=normal, tier=quick, unwind=5, { hist::<3>() });
harness!(name=c08_hist_4, prop=C08, mode=R, kind=normal, tier=quick, unwind=6, { hist::<4>() });
harness!(name=c08_hist_6, prop=C08, mode=R, kind=normal, tier=quick, unwind=8, { hist::<6>() });
