//! C19 Resampling never invents, loses or unpairs data.
use crate::rt::inp;
use crate::{harness, vassert, vassume, vbits, vmustpanic};
use compute::validation::*;

/// same element: bit-identical, or both NaN (CBMC's float->bits conversion leaves NaN payloads free)
fn same(a: f64, b: f64) -> bool {
    a.to_bits() == b.to_bits() || (a.is_nan() && b.is_nan())
}

// @bound c19_bootstrap_: data length N, M resamples (instance); data opaque (U); every RNG stream (each draw an arbitrary value allowed by the RNG contract)
// @claim c19_bootstrap_: exactly M resamples, each of length N; element k of resample i is data[j] where j is the index the RNG returned for that position; the RNG is asked for an index in [0, N-1] (so every position can be drawn and nothing else can)
fn bootstrap_h<const N: usize, const M: usize>() {
    let d: [f64; N] = inp::arr(0);
    alea::shim_set_cursor(0);
    let r = bootstrap(&d, M);
    vassert!(r.len() == M, "bootstrap returned {} resamples, wanted {}", r.len(), M);
    let mut i = 0;
    while i < M && i < r.len() {
        vassert!(r[i].len() == N, "resample {} has length {}", i, r[i].len());
        let mut k = 0;
        while k < N && k < r[i].len() {
            // a single-element data set needs no draw
            let j = if N == 1 { 0 } else { alea::shim_peek_u64((i * N + k) as u32) as usize };
            vassert!(j < N, "draw {} outside 0..{}", j, N);
            if j < N {
                vassert!(same(r[i][k], d[j]), "resample {} position {} is not data[{}]", i, k, j);
            }
            k += 1;
        }
        i += 1;
    }
}
harness!(name=c19_bootstrap_1_1, prop=C19, mode=U, kind=normal, tier=quick, unwind=79, { bootstrap_h::<1, 1>() });
harness!(name=c19_bootstrap_1_2, prop=C19, mode=U, kind=normal, tier=quick, unwind=79, { bootstrap_h::<1, 2>() });
harness!(name=c19_bootstrap_2_0, prop=C19, mode=U, kind=normal, tier=quick, unwind=79, { bootstrap_h::<2, 0>() });
harness!(name=c19_bootstrap_2_2, prop=C19, mode=U, kind=normal, tier=quick, unwind=80, { bootstrap_h::<2, 2>() });
harness!(name=c19_bootstrap_3_1, prop=C19, mode=U, kind=normal, tier=quick, unwind=81, { bootstrap_h::<3, 1>() });
harness!(name=c19_bootstrap_3_2, prop=C19, mode=U, kind=normal, tier=quick, unwind=80, { bootstrap_h::<3, 2>() });
harness!(name=c19_bootstrap_4_2, prop=C19, mode=U, kind=normal, tier=thorough, unwind=82, { bootstrap_h::<4, 2>() });
harness!(name=c19_bootstrap_5_3, prop=C19, mode=U, kind=normal, tier=thorough, unwind=83, { bootstrap_h::<5, 3>() });

// @claim c19_reach_: for a given position every index 0..N-1 is a possible outcome (the RNG contract admits it and the code maps it to that element)
fn reach<const N: usize>(pos: usize, idx: usize) {
    let d: [f64; N] = inp::arr(0);
    alea::shim_set_cursor(0);
    vassume!(alea::shim_peek_u64(pos as u32) as usize == idx);
    let r = bootstrap(&d, 1);
    vassert!(same(r[0][pos], d[idx]), "position {} did not take data[{}]", pos, idx);
}
harness!(name=c19_reach_3_p0_i2, prop=C19, mode=U, kind=normal, tier=quick, unwind=81, { reach::<3>(0, 2) });
harness!(name=c19_reach_3_p2_i0, prop=C19, mode=U, kind=normal, tier=quick, unwind=81, { reach::<3>(2, 0) });
harness!(name=c19_reach_2_p1_i1, prop=C19, mode=U, kind=normal, tier=quick, unwind=80, { reach::<2>(1, 1) });

// @bound c19_jackknife_: data length N (instance), opaque data (U)
// @claim c19_jackknife_: exactly N vectors; the i-th is the data without element i, order kept
fn jackknife_h<const N: usize>() {
    let d: [f64; N] = inp::arr(0);
    let r = jackknife(&d);
    vassert!(r.len() == N, "jackknife returned {} vectors for n={}", r.len(), N);
    let mut i = 0;
    while i < N && i < r.len() {
        vassert!(r[i].len() == N - 1, "leave-{}-out has length {}", i, r[i].len());
        let mut k = 0;
        while k + 1 < N && k < r[i].len() {
            let src = if k < i { k } else { k + 1 };
            vassert!(same(r[i][k], d[src]), "leave-{}-out position {} is not data[{}]", i, k, src);
            k += 1;
        }
        i += 1;
    }
}
harness!(name=c19_jackknife_1, prop=C19, mode=U, kind=normal, tier=quick, unwind=78, { jackknife_h::<1>() });
harness!(name=c19_jackknife_2, prop=C19, mode=U, kind=normal, tier=quick, unwind=79, { jackknife_h::<2>() });
harness!(name=c19_jackknife_3, prop=C19, mode=U, kind=normal, tier=quick, unwind=80, { jackknife_h::<3>() });
harness!(name=c19_jackknife_5, prop=C19, mode=U, kind=normal, tier=quick, unwind=82, { jackknife_h::<5>() });
harness!(name=c19_jackknife_7, prop=C19, mode=U, kind=normal, tier=thorough, unwind=84, { jackknife_h::<7>() });

fn count(v: &[f64], x: f64) -> usize {
    let mut c = 0;
    for y in v {
        if same(*y, x) {
            c += 1;
        }
    }
    c
}
// @bound c19_shuffle_: data length N (instance), opaque data incl. repeated values (U), every RNG stream
// @claim c19_shuffle_: the output has the input's length and multiset (each value occurs as often as in the input)
fn shuffle_h<const N: usize>() {
    let d: [f64; N] = inp::arr(0);
    alea::shim_set_cursor(0);
    let s = shuffle(&d);
    vassert!(s.len() == N, "shuffle changed the length to {}", s.len());
    let mut i = 0;
    while i < N {
        vassert!(count(&s, d[i]) == count(&d, d[i]), "multiplicity of input element {} changed", i);
        i += 1;
    }
}
harness!(name=c19_shuffle_1, prop=C19, mode=U, kind=normal, tier=quick, unwind=79, { shuffle_h::<1>() });
harness!(name=c19_shuffle_2, prop=C19, mode=U, kind=normal, tier=thorough, unwind=81, { shuffle_h::<2>() });
harness!(name=c19_shuffle_3, prop=C19, mode=U, kind=normal, tier=thorough, unwind=83, { shuffle_h::<3>() });
harness!(name=c19_shuffle_4, prop=C19, mode=U, kind=normal, tier=thorough, unwind=85, { shuffle_h::<4>() });

// @claim c19_shuffle2_: both outputs are images of the inputs under one common permutation: the multiset of pairs (a_i, b_i) is preserved
fn shuffle2_h<const N: usize>() {
    let a: [f64; N] = inp::arr(0);
    let b: [f64; N] = inp::arr(100);
    alea::shim_set_cursor(0);
    let (sa, sb) = shuffle_two(&a, &b);
    vassert!(sa.len() == N && sb.len() == N, "shuffle_two changed a length");
    let mut i = 0;
    while i < N {
        let (mut cin, mut cout) = (0, 0);
        let mut j = 0;
        while j < N {
            if same(a[j], a[i]) && same(b[j], b[i]) {
                cin += 1;
            }
            if same(sa[j], a[i]) && same(sb[j], b[i]) {
                cout += 1;
            }
            j += 1;
        }
        vassert!(cin == cout, "pair {} occurs {} times in the input and {} times in the output", i, cin, cout);
        i += 1;
    }
}
harness!(name=c19_shuffle2_1, prop=C19, mode=U, kind=normal, tier=quick, unwind=79, { shuffle2_h::<1>() });
harness!(name=c19_shuffle2_2, prop=C19, mode=U, kind=normal, tier=thorough, unwind=81, { shuffle2_h::<2>() });
harness!(name=c19_shuffle2_3, prop=C19, mode=U, kind=normal, tier=thorough, unwind=83, { shuffle2_h::<3>() });
// ---- the same two clauses stated as "some permutation maps the input onto the output" (a disjunction over the N!
// permutations, each a conjunction of N bit-equalities): equivalent to the multiset formulation and cheaper to decide
// @bound c19_perm_: data length N = 2, 3 (instance), opaque data incl. repeated values (U), every RNG stream
// @claim c19_perm_: shuffle's output is the image of its input under one of the N! permutations; shuffle_two's outputs are the images of both inputs under one common permutation (U)
// @modes c19_perm_: U
// @cap c19_perm_: 240
const P2: [[usize; 2]; 2] = [[0, 1], [1, 0]];
const P3: [[usize; 3]; 6] = [[0, 1, 2], [0, 2, 1], [1, 0, 2], [1, 2, 0], [2, 0, 1], [2, 1, 0]];
fn image_of<const N: usize>(out: &[f64], inp: &[f64; N], p: &[usize; N]) -> bool {
    let mut ok = true;
    let mut i = 0;
    while i < N {
        ok = ok & same(out[i], inp[p[i]]);
        i += 1;
    }
    ok
}
fn perm1<const N: usize, const M: usize>(perms: &[[usize; N]; M]) {
    let d: [f64; N] = inp::arr(0);
    alea::shim_set_cursor(0);
    let s = shuffle(&d);
    vassert!(s.len() == N, "shuffle changed the length to {}", s.len());
    let mut any = false;
    let mut k = 0;
    while k < M {
        any = any | image_of(&s, &d, &perms[k]);
        k += 1;
    }
    vassert!(any, "shuffle's output is not a permutation of its input");
}
fn perm2<const N: usize, const M: usize>(perms: &[[usize; N]; M]) {
    let a: [f64; N] = inp::arr(0);
    let b: [f64; N] = inp::arr(100);
    alea::shim_set_cursor(0);
    let (sa, sb) = shuffle_two(&a, &b);
    vassert!(sa.len() == N && sb.len() == N, "shuffle_two changed a length");
    let mut any = false;
    let mut k = 0;
    while k < M {
        any = any | (image_of(&sa, &a, &perms[k]) & image_of(&sb, &b, &perms[k]));
        k += 1;
    }
    vassert!(any, "shuffle_two's outputs are not images of its inputs under one common permutation");
}
harness!(name=c19_perm_shuffle_2, prop=C19, mode=U, kind=normal, tier=quick, unwind=81, { perm1::<2, 2>(&P2) });
harness!(name=c19_perm_shuffle2_2, prop=C19, mode=U, kind=normal, tier=quick, unwind=81, { perm2::<2, 2>(&P2) });
harness!(name=c19_perm_shuffle_3, prop=C19, mode=U, kind=normal, tier=thorough, unwind=83, { perm1::<3, 6>(&P3) });
// kept in the quick tier with a short cap: its unsat direction needs more than the thorough cap, its sat direction
// (a paired shuffle that unpairs repeated values needs three elements) is found in seconds
// @cap c19_perm_shuffle2_3: 40
harness!(name=c19_perm_shuffle2_3, prop=C19, mode=U, kind=normal, tier=quick, unwind=83, { perm2::<3, 6>(&P3) });
harness!(name=c19_shuffle2_mismatch, prop=C19, mode=U, kind=mustpanic, tier=quick, unwind=80, {
    let a: [f64; 2] = inp::arr(0);
    let b: [f64; 3] = inp::arr(100);
    vmustpanic!(shuffle_two(&a, &b), "length mismatch");
});
