//! C15 Shape operations and constructors preserve data and the matrix invariant.
use crate::rt::{fabs, hf, inp};
use crate::{harness, vassert, vassume, vbits, vclose, vmustpanic};
use compute::linalg::*;

/// the representation invariant plus element-wise agreement with a row-major model
fn agrees(m: &Matrix, model: &[f64], r: usize, c: usize, what: &'static str) {
    vassert!(m.nrows == r && m.ncols == c, "{}: shape {}x{} want {}x{}", what, m.nrows, m.ncols, r, c);
    vassert!(m.nrows * m.ncols == m.data.len(), "{}: invariant broken: {}x{} with {} elements", what, m.nrows, m.ncols, m.data.len());
    vassert!(m.data.len() == model.len(), "{}: {} elements, model has {}", what, m.data.len(), model.len());
    let mut i = 0;
    while i < model.len() && i < m.data.len() {
        vbits!(m.data[i], model[i], "{}: element {}", what, i);
        i += 1;
    }
}
fn vec_agrees(v: &[f64], model: &[f64], what: &'static str) {
    vassert!(v.len() == model.len(), "{}: length {} want {}", what, v.len(), model.len());
    let mut i = 0;
    while i < model.len() && i < v.len() {
        vbits!(v[i], model[i], "{}: element {}", what, i);
        i += 1;
    }
}

// @bound c15_ops_: one step of every structural operation from an arbitrary valid RxC matrix (instance shapes up to 3x3), data opaque (U). Any finite sequence of operations is covered by induction: each operation is checked from an arbitrary state that satisfies the invariant and its post-state satisfies the invariant again.
// @claim c15_ops_: t, t_mut, reshape / reshape_mut (explicit and inferred dimension), hcat, vcat, hrepeat, vrepeat, row / column extraction, in-place row / column maps, flat and 2-D indexing, diag, to_matrix / to_vec, layout conversions: the result holds exactly the elements of the row-major model and rows x cols = element count
fn ops<const R: usize, const C: usize>() {
    let d = inp::vec(0, R * C);
    let m = Matrix::new(d.clone(), R as i32, C as i32);
    agrees(&m, &d, R, C, "new");
    // transpose
    let mut tr = Vec::with_capacity(R * C);
    let mut j = 0;
    while j < C {
        let mut i = 0;
        while i < R {
            tr.push(d[i * C + j]);
            i += 1;
        }
        j += 1;
    }
    agrees(&m.t(), &tr, C, R, "t");
    let mut mm = m.clone();
    mm.t_mut();
    agrees(&mm, &tr, C, R, "t_mut");
    vec_agrees(&transpose(&d, R), &tr, "transpose");
    vec_agrees(&row_to_col_major(&d, R), &tr, "row_to_col_major");
    vec_agrees(&col_to_row_major(&tr, R), &d, "col_to_row_major");
    // reshape keeps the row-major order
    agrees(&m.reshape(C as i32, R as i32), &d, C, R, "reshape(C,R)");
    agrees(&m.reshape(-1, C as i32), &d, R, C, "reshape(-1,C)");
    agrees(&m.reshape(R as i32, -1), &d, R, C, "reshape(R,-1)");
    agrees(&m.reshape(1, -1), &d, 1, R * C, "reshape(1,-1)");
    let mut mm = m.clone();
    mm.reshape_mut(-1, 1);
    agrees(&mm, &d, R * C, 1, "reshape_mut(-1,1)");
    mm.reshape_mut(R as i32, C as i32);
    agrees(&mm, &d, R, C, "reshape_mut(R,C)");
    // rows, columns, indexing
    let mut i = 0;
    while i < R {
        vec_agrees(&m.get_row_as_vector(i), &d[i * C..(i + 1) * C], "get_row_as_vector");
        vec_agrees(&m[i], &d[i * C..(i + 1) * C], "index [i]");
        let mut j = 0;
        while j < C {
            vbits!(m[[i, j]], d[i * C + j], "index [[{},{}]]", i, j);
            vbits!(m.flat_idx(i * C + j), d[i * C + j], "flat_idx {}", i * C + j);
            j += 1;
        }
        i += 1;
    }
    let mut j = 0;
    while j < C {
        let col = m.get_col_as_vector(j);
        vassert!(col.len() == R, "column length");
        let mut i = 0;
        while i < R && i < col.len() {
            vbits!(col[i], d[i * C + j], "get_col_as_vector({}) element {}", j, i);
            i += 1;
        }
        j += 1;
    }
    // diagonal
    let dg = m.diag();
    let n = if R < C { R } else { C };
    vassert!(dg.len() == n, "diag length {}", dg.len());
    let mut i = 0;
    while i < n && i < dg.len() {
        vbits!(dg[i], d[i * C + i], "diag element {}", i);
        i += 1;
    }
    // conversions
    vec_agrees(&m.clone().to_vec(), &d, "to_vec");
    agrees(&Vector::new(d.clone()).to_matrix(), &d, 1, R * C, "Vector::to_matrix");
    agrees(&Vector::new(d.clone()).reshape(R as i32, C as i32), &d, R, C, "Vector::reshape");
}
harness!(name=c15_ops_11, prop=C15, mode=U, kind=normal, tier=quick, unwind=20, { ops::<1, 1>() });
harness!(name=c15_ops_13, prop=C15, mode=U, kind=normal, tier=quick, unwind=20, { ops::<1, 3>() });
harness!(name=c15_ops_31, prop=C15, mode=U, kind=normal, tier=quick, unwind=20, { ops::<3, 1>() });
harness!(name=c15_ops_22, prop=C15, mode=U, kind=normal, tier=quick, unwind=20, { ops::<2, 2>() });
harness!(name=c15_ops_23, prop=C15, mode=U, kind=normal, tier=quick, unwind=20, { ops::<2, 3>() });
harness!(name=c15_ops_32, prop=C15, mode=U, kind=normal, tier=quick, unwind=20, { ops::<3, 2>() });
harness!(name=c15_ops_33, prop=C15, mode=U, kind=normal, tier=thorough, unwind=20, { ops::<3, 3>() });

// @claim c15_cat_: hcat / vcat / hrepeat / vrepeat, in-place row and column maps with an arbitrary (uninterpreted) function, flat_idx_replace
fn cat<const R: usize, const C: usize, const C2: usize>() {
    let a = inp::vec(0, R * C);
    let b = inp::vec(100, R * C2);
    let am = Matrix::new(a.clone(), R as i32, C as i32);
    let bm = Matrix::new(b.clone(), R as i32, C2 as i32);
    let mut h = Vec::new();
    let mut i = 0;
    while i < R {
        h.extend_from_slice(&a[i * C..(i + 1) * C]);
        h.extend_from_slice(&b[i * C2..(i + 1) * C2]);
        i += 1;
    }
    agrees(&am.hcat(bm.clone()), &h, R, C + C2, "hcat");
    // vcat needs equal column counts: stack a on itself transposed-shape-free
    let mut v = a.clone();
    v.extend_from_slice(&a);
    agrees(&am.vcat(am.clone()), &v, 2 * R, C, "vcat");
    agrees(&am.vrepeat(2), &v, 2 * R, C, "vrepeat(2)");
    let mut hr = Vec::new();
    let mut i = 0;
    while i < R {
        hr.extend_from_slice(&a[i * C..(i + 1) * C]);
        hr.extend_from_slice(&a[i * C..(i + 1) * C]);
        i += 1;
    }
    agrees(&am.hrepeat(2), &hr, R, 2 * C, "hrepeat(2)");
    // in-place maps with an arbitrary function
    let mut m1 = am.clone();
    m1.apply_along_row(R - 1, |x| hf(0, x));
    let mut m2 = am.clone();
    m2.apply_along_col(C - 1, |x| hf(1, x));
    let mut w1 = a.clone();
    let mut w2 = a.clone();
    let mut j = 0;
    while j < C {
        w1[(R - 1) * C + j] = hf(0, a[(R - 1) * C + j]);
        j += 1;
    }
    let mut i = 0;
    while i < R {
        w2[i * C + C - 1] = hf(1, a[i * C + C - 1]);
        i += 1;
    }
    agrees(&m1, &w1, R, C, "apply_along_row");
    agrees(&m2, &w2, R, C, "apply_along_col");
    let mut m3 = am.clone();
    let z = inp::f64(200);
    m3.flat_idx_replace(R * C - 1, z);
    let mut w3 = a.clone();
    w3[R * C - 1] = z;
    agrees(&m3, &w3, R, C, "flat_idx_replace");
}
harness!(name=c15_cat_121, prop=C15, mode=U, kind=normal, tier=quick, unwind=20, { cat::<1, 2, 1>() });
harness!(name=c15_cat_212, prop=C15, mode=U, kind=normal, tier=quick, unwind=20, { cat::<2, 1, 2>() });
harness!(name=c15_cat_232, prop=C15, mode=U, kind=normal, tier=quick, unwind=20, { cat::<2, 3, 2>() });
harness!(name=c15_cat_323, prop=C15, mode=U, kind=normal, tier=thorough, unwind=20, { cat::<3, 2, 3>() });

// @claim c15_bad_: impossible shapes and out-of-range indices are rejected by a panic
fn bad(which: u8) {
    let d = inp::vec(0, 6);
    let m = Matrix::new(d.clone(), 2, 3);
    match which {
        0 => vmustpanic!(m.reshape(4, 2), "reshape 2x3 -> 4x2"),
        1 => vmustpanic!(m.reshape(-1, 4), "reshape(-1,4) of 6 elements"),
        2 => vmustpanic!(m.reshape(4, -1), "reshape(4,-1) of 6 elements"),
        3 => vmustpanic!(m.reshape(0, 6), "reshape(0,6)"),
        4 => vmustpanic!(m.reshape(-1, -1), "reshape(-1,-1)"),
        5 => vmustpanic!(Matrix::new(d.clone(), 4, 2), "Matrix::new 6 elements as 4x2"),
        6 => { let mut mm = m.clone(); vmustpanic!(mm.reshape_mut(-1, 4).nrows, "reshape_mut(-1,4) of 6 elements"); }
        7 => vmustpanic!(m.hcat(Matrix::new(inp::vec(100, 3), 1, 3)), "hcat with different row counts"),
        8 => vmustpanic!(m.vcat(Matrix::new(inp::vec(100, 2), 1, 2)), "vcat with different column counts"),
        9 => vmustpanic!(m.get_row_as_vector(2), "row index out of range"),
        10 => vmustpanic!(m.get_col_as_vector(3), "column index out of range"),
        11 => vmustpanic!(m.flat_idx(6), "flat index out of range"),
        12 => vmustpanic!(m[[2, 0]], "2-D index out of range"),
        13 => vmustpanic!(m.reshape(-2, 3), "reshape(-2,3)"),
        _ => vmustpanic!(Matrix::new(d.clone(), -1, 4), "Matrix::new 6 elements with 4 columns"),
    }
}
harness!(name=c15_bad_0, prop=C15, mode=U, kind=mustpanic, tier=quick, unwind=20, { bad(0) });
harness!(name=c15_bad_1, prop=C15, mode=U, kind=mustpanic, tier=quick, unwind=20, { bad(1) });
harness!(name=c15_bad_2, prop=C15, mode=U, kind=mustpanic, tier=quick, unwind=20, { bad(2) });
harness!(name=c15_bad_3, prop=C15, mode=U, kind=mustpanic, tier=quick, unwind=20, { bad(3) });
harness!(name=c15_bad_4, prop=C15, mode=U, kind=mustpanic, tier=quick, unwind=20, { bad(4) });
harness!(name=c15_bad_5, prop=C15, mode=U, kind=mustpanic, tier=quick, unwind=20, { bad(5) });
harness!(name=c15_bad_6, prop=C15, mode=U, kind=mustpanic, tier=quick, unwind=20, { bad(6) });
harness!(name=c15_bad_7, prop=C15, mode=U, kind=mustpanic, tier=quick, unwind=20, { bad(7) });
harness!(name=c15_bad_8, prop=C15, mode=U, kind=mustpanic, tier=quick, unwind=20, { bad(8) });
harness!(name=c15_bad_9, prop=C15, mode=U, kind=mustpanic, tier=quick, unwind=20, { bad(9) });
harness!(name=c15_bad_10, prop=C15, mode=U, kind=mustpanic, tier=quick, unwind=20, { bad(10) });
harness!(name=c15_bad_11, prop=C15, mode=U, kind=mustpanic, tier=quick, unwind=20, { bad(11) });
harness!(name=c15_bad_12, prop=C15, mode=U, kind=mustpanic, tier=quick, unwind=20, { bad(12) });
harness!(name=c15_bad_13, prop=C15, mode=U, kind=mustpanic, tier=quick, unwind=20, { bad(13) });
harness!(name=c15_bad_14, prop=C15, mode=U, kind=mustpanic, tier=quick, unwind=20, { bad(14) });

// ---- constructors
// @claim c15_ctor_: eye, zeros, ones, diag_matrix, toeplitz, design deliver their defining pattern (U)
fn ctor<const N: usize>() {
    let x = inp::vec(0, N);
    let e = Matrix::eye(N);
    let z = Matrix::zeros(N, N + 1);
    let o = Matrix::ones(N + 1, N);
    vassert!(e.nrows == N && e.ncols == N && e.data.len() == N * N, "eye shape");
    vassert!(z.nrows == N && z.ncols == N + 1 && z.data.len() == N * (N + 1), "zeros shape");
    vassert!(o.nrows == N + 1 && o.ncols == N && o.data.len() == N * (N + 1), "ones shape");
    let dm = diag_matrix(&x);
    let tp = toeplitz(&x);
    vassert!(dm.len() == N * N && tp.len() == N * N, "diag_matrix / toeplitz length");
    let mut i = 0;
    while i < N {
        let mut j = 0;
        while j < N {
            vbits!(e.data[i * N + j], if i == j { 1.0 } else { 0.0 }, "eye ({},{})", i, j);
            vbits!(dm[i * N + j], if i == j { x[i] } else { 0.0 }, "diag_matrix ({},{})", i, j);
            let k = if i > j { i - j } else { j - i };
            vbits!(tp[i * N + j], x[k], "toeplitz ({},{})", i, j);
            j += 1;
        }
        i += 1;
    }
    let mut i = 0;
    while i < N * (N + 1) {
        vbits!(z.data[i], 0.0, "zeros {}", i);
        vbits!(o.data[i], 1.0, "ones {}", i);
        i += 1;
    }
    // design: a leading column of ones in front of the N x 1 column x
    let ds = design(&x, N);
    vassert!(ds.len() == 2 * N, "design length {}", ds.len());
    vassert!(is_design(&ds, N), "design matrix not recognised by is_design");
    let mut i = 0;
    while i < N && 2 * i + 1 < ds.len() {
        vbits!(ds[2 * i], 1.0, "design row {} leading one", i);
        vbits!(ds[2 * i + 1], x[i], "design row {} value", i);
        i += 1;
    }
}
harness!(name=c15_ctor_1, prop=C15, mode=U, kind=normal, tier=quick, unwind=20, { ctor::<1>() });
harness!(name=c15_ctor_2, prop=C15, mode=U, kind=normal, tier=quick, unwind=20, { ctor::<2>() });
harness!(name=c15_ctor_3, prop=C15, mode=U, kind=normal, tier=quick, unwind=20, { ctor::<3>() });
harness!(name=c15_ctor_4, prop=C15, mode=U, kind=normal, tier=thorough, unwind=24, { ctor::<4>() });

// @claim c15_vander_: vandermonde(x, n) has rows (1, x_i, x_i^2, ..) (R: powers as repeated products)
fn vander<const M: usize, const N: usize>() {
    let x = inp::vec(0, M);
    for v in &x {
        vassume!(*v >= -1.0e2 && *v <= 1.0e2);
    }
    let vm = vandermonde(&x, N);
    vassert!(vm.len() == M * N, "vandermonde length {}", vm.len());
    let mut i = 0;
    while i < M {
        let mut p = 1.0;
        let mut k = 0;
        while k < N && i * N + k < vm.len() {
            vclose!(vm[i * N + k], p, 1e-6 * (1.0 + fabs(p)), "vandermonde ({},{})", i, k);
            p *= x[i];
            k += 1;
        }
        i += 1;
    }
}
harness!(name=c15_vander_23, prop=C15, mode=R, kind=normal, tier=quick, unwind=20, { vander::<2, 3>() });
harness!(name=c15_vander_14, prop=C15, mode=R, kind=normal, tier=quick, unwind=20, { vander::<1, 4>() });

// @claim c15_linspace_: linspace(start, stop, num) has num points start + i (stop-start)/(num-1): both end points included (R)
fn linspace_h<const NUM: usize>() {
    let (a, b) = (inp::f64(0), inp::f64(1));
    vassume!(a >= -1.0e3 && a <= 1.0e3 && b >= -1.0e3 && b <= 1.0e3);
    let v = linspace(a, b, NUM);
    vassert!(v.len() == NUM, "linspace length {}", v.len());
    let tol = 1e-9 * (1.0 + fabs(a) + fabs(b));
    let mut i = 0;
    while i < NUM && i < v.len() {
        vclose!(v[i], a + i as f64 * (b - a) / (NUM as f64 - 1.0), tol, "linspace point {}", i);
        i += 1;
    }
    if v.len() == NUM {
        vclose!(v[0], a, tol, "first point is start");
        vclose!(v[NUM - 1], b, tol, "last point is stop");
    }
}
harness!(name=c15_linspace_2, prop=C15, mode=R, kind=normal, tier=quick, unwind=20, { linspace_h::<2>() });
harness!(name=c15_linspace_3, prop=C15, mode=R, kind=normal, tier=quick, unwind=20, { linspace_h::<3>() });
harness!(name=c15_linspace_6, prop=C15, mode=R, kind=normal, tier=quick, unwind=20, { linspace_h::<6>() });

// @bound c15_arange_: start, stop, step symbolic with step > 0; one instance per result length K: (K-1) step < stop - start <= K step
// @claim c15_arange_: half-open convention: exactly the K grid points start + i step that lie below stop are returned (R)
// @cap c15_arange_: 90
fn arange_k<const K: usize>() {
    let (a, b, s) = (inp::f64(0), inp::f64(1), inp::f64(2));
    vassume!(a >= -1.0e3 && a <= 1.0e3 && b >= -1.0e3 && b <= 1.0e3 && s >= 1.0e-3 && s <= 1.0e3);
    let d = b - a;
    if K == 0 {
        vassume!(d == 0.0);
    } else {
        // keep the ratio away from the integers by a margin so that the native replay is not a rounding artefact
        vassume!(d >= (K as f64 - 1.0) * s + 1.0e-6 * s && d <= K as f64 * s - 1.0e-6 * s);
    }
    let v = arange(a, b, s);
    vassert!(v.len() == K, "arange({:e}, {:e}, {:e}) has {} elements, {} grid points lie below stop", a, b, s, v.len(), K);
    let tol = 1e-9 * (1.0 + fabs(a) + fabs(b) + s);
    let mut i = 0;
    while i < K && i < v.len() {
        vclose!(v[i], a + i as f64 * s, tol, "arange element {}", i);
        i += 1;
    }
}
harness!(name=c15_arange_0, prop=C15, mode=R, kind=normal, tier=quick, unwind=7, { arange_k::<0>() });
harness!(name=c15_arange_1, prop=C15, mode=R, kind=normal, tier=quick, unwind=7, { arange_k::<1>() });
harness!(name=c15_arange_2, prop=C15, mode=R, kind=normal, tier=thorough, unwind=7, { arange_k::<2>() });
harness!(name=c15_arange_3, prop=C15, mode=R, kind=normal, tier=thorough, unwind=8, { arange_k::<3>() });

// @axioms c15_rot_: sincos
// @claim c15_rot_: rotation matrices are orthogonal with determinant 1, clockwise = counter-clockwise transposed, for the three axes (R with sin^2 + cos^2 = 1)
fn rot(axis: u8) {
    let t = inp::f64(0);
    vassume!(t >= -13.0 && t <= 13.0);
    let ax = || match axis { 0 => Axis::X, 1 => Axis::Y, _ => Axis::Z };
    let cw = rotation_matrix_cw(t, ax());
    let ccw = rotation_matrix_ccw(t, ax());
    vassert!(cw.nrows == 3 && cw.ncols == 3 && ccw.nrows == 3 && ccw.ncols == 3, "rotation shape");
    let mut i = 0;
    while i < 3 {
        let mut j = 0;
        while j < 3 {
            vclose!(cw.data[i * 3 + j], ccw.data[j * 3 + i], 1e-12, "cw = ccw^T ({},{})", i, j);
            let mut s = 0.0;
            let mut k = 0;
            while k < 3 {
                s += cw.data[k * 3 + i] * cw.data[k * 3 + j];
                k += 1;
            }
            vclose!(s, if i == j { 1.0 } else { 0.0 }, 1e-12, "R^T R ({},{})", i, j);
            j += 1;
        }
        i += 1;
    }
    let a = &cw.data;
    let det = a[0] * (a[4] * a[8] - a[5] * a[7]) - a[1] * (a[3] * a[8] - a[5] * a[6]) + a[2] * (a[3] * a[7] - a[4] * a[6]);
    vclose!(det, 1.0, 1e-12, "determinant");
}
harness!(name=c15_rot_x, prop=C15, mode=R, kind=normal, tier=quick, unwind=20, { rot(0) });
harness!(name=c15_rot_y, prop=C15, mode=R, kind=normal, tier=quick, unwind=20, { rot(1) });
harness!(name=c15_rot_z, prop=C15, mode=R, kind=normal, tier=quick, unwind=20, { rot(2) });

// ---- predicates
// @claim c15_pred_: is_symmetric, is_upper/lower_triangular, Matrix::is_square, is_design, Vector/Matrix == and close_to answer per their definition (R; comparison-only code on finite values)
fn pred<const N: usize>() {
    let d = inp::vec(0, N * N);
    for v in &d {
        vassume!(*v >= -1.0e3 && *v <= 1.0e3);
    }
    let m = Matrix::new(d.clone(), N as i32, N as i32);
    let (mut sym, mut up, mut lo) = (true, true, true);
    let mut i = 0;
    while i < N {
        let mut j = 0;
        while j < N {
            if fabs(d[i * N + j] - d[j * N + i]) > f64::EPSILON {
                sym = false;
            }
            if j < i && d[i * N + j] != 0.0 {
                up = false;
            }
            if j > i && d[i * N + j] != 0.0 {
                lo = false;
            }
            j += 1;
        }
        i += 1;
    }
    vassert!(is_symmetric(&d) == sym && m.is_symmetric() == sym, "is_symmetric");
    vassert!(m.is_upper_triangular() == up, "is_upper_triangular");
    vassert!(m.is_lower_triangular() == lo, "is_lower_triangular");
    vassert!(m.is_square(), "Matrix::is_square on a square matrix");
    vassert!(!Matrix::new(inp::vec(100, 2 * N), 2, N as i32).is_square() || N == 2, "Matrix::is_square on 2xN");
    // equality: same shape and every |a_i - b_i| <= eps
    let e = inp::vec(200, N * N);
    for v in &e {
        vassume!(*v >= -1.0e3 && *v <= 1.0e3);
    }
    let mut eq = true;
    let mut i = 0;
    while i < N * N {
        if fabs(d[i] - e[i]) > f64::EPSILON {
            eq = false;
        }
        i += 1;
    }
    let m2 = Matrix::new(e.clone(), N as i32, N as i32);
    vassert!((m == m2) == eq, "Matrix ==");
    vassert!((Vector::new(d.clone()) == Vector::new(e.clone())) == eq, "Vector ==");
    vassert!(!(m == Matrix::new(e.clone(), 1, (N * N) as i32)) || N == 1, "Matrix == across shapes");
}
harness!(name=c15_pred_1, prop=C15, mode=R, kind=normal, tier=quick, unwind=20, { pred::<1>() });
harness!(name=c15_pred_2, prop=C15, mode=R, kind=normal, tier=quick, unwind=20, { pred::<2>() });
harness!(name=c15_pred_3, prop=C15, mode=R, kind=normal, tier=thorough, unwind=20, { pred::<3>() });

// @claim c15_sign_: approximate comparison never equates values of opposite sign: a > 0 > b implies !close_to for every tolerance < 1 (R)
harness!(name=c15_sign_close_to, prop=C15, mode=R, kind=normal, tier=quick, unwind=20, {
    let (a, b, tol) = (inp::f64(0), inp::f64(1), inp::f64(2));
    vassume!(a >= 1.0e-6 && a <= 1.0e3 && b <= -1.0e-6 && b >= -1.0e3 && tol >= 0.0 && tol <= 0.5);
    vassert!(!Vector::new(vec![a]).close_to(&Vector::new(vec![b]), tol), "close_to equates {:e} and {:e}", a, b);
    vassert!(!Matrix::new(vec![a], 1, 1).close_to(&Matrix::new(vec![b], 1, 1), tol), "Matrix::close_to equates {:e} and {:e}", a, b);
    vassert!(!(Vector::new(vec![a]) == Vector::new(vec![b])), "== equates {:e} and {:e}", a, b);
});


// @bound c15_sign_bits: one element, every pair of finite doubles a > 0 > b including subnormals, every tolerance in [0, 1/2] (bit-precise, B)
// @claim c15_sign_bits: Vector::close_to and Matrix::close_to never equate values of opposite sign, whatever their magnitude (the product of two tiny values underflows to zero: the sign test must not be a product) (B)
// @cap c15_sign_bits: 120
harness!(name=c15_sign_bits, prop=C15, mode=B, kind=normal, tier=quick, unwind=20, {
    let (a, b, tol) = (inp::f64(0), inp::f64(1), inp::f64(2));
    vassume!(a > 0.0 && a < f64::INFINITY && b < 0.0 && b > f64::NEG_INFINITY && tol >= 0.0 && tol <= 0.5);
    vassert!(!Vector::new(vec![a]).close_to(&Vector::new(vec![b]), tol), "close_to equates {:e} and {:e}", a, b);
    vassert!(!Matrix::new(vec![a], 1, 1).close_to(&Matrix::new(vec![b], 1, 1), tol), "Matrix::close_to equates {:e} and {:e}", a, b);
});
