//! C14 Polynomial regression returns the least-squares polynomial.
use crate::rt::{fabs, inp};
use crate::{harness, vassert, vassume, vclose};
use compute::predict::PolynomialRegressor;

fn powu(x: f64, d: usize) -> f64 {
    let mut r = 1.0;
    let mut i = 0;
    while i < d {
        r *= x;
        i += 1;
    }
    r
}
// @cap c14_fit_: 150
// @bound c14_fit_: degree D and N points (instance), abscissae in [-2,2] pairwise at least 1e-2 apart, responses in ±1e3
// @claim c14_fit_: the fitted coefficients satisfy the normal equations: the residual is orthogonal to every power of x up to the degree (equivalent to minimality over the reals) (R)
fn fit_h<const D: usize, const N: usize>() {
    let x: [f64; N] = inp::arr(0);
    let y: [f64; N] = inp::arr(100);
    let mut i = 0;
    while i < N {
        vassume!(x[i] >= -2.0 && x[i] <= 2.0 && y[i] >= -1.0e3 && y[i] <= 1.0e3);
        let mut j = 0;
        while j < i {
            let e = x[i] - x[j];
            vassume!(e >= 1.0e-2 || e <= -1.0e-2);
            j += 1;
        }
        i += 1;
    }
    let mut pr = PolynomialRegressor::new(D);
    pr.fit(&x, &y);
    vassert!(pr.coef.len() == D + 1, "{} coefficients for degree {}", pr.coef.len(), D);
    let mut k = 0;
    while k <= D {
        let mut s = 0.0;
        let mut i = 0;
        while i < N {
            let mut p = 0.0;
            let mut j = 0;
            while j <= D && j < pr.coef.len() {
                p += pr.coef[j] * powu(x[i], j);
                j += 1;
            }
            s += powu(x[i], k) * (p - y[i]);
            i += 1;
        }
        vclose!(s, 0.0, 1e-4, "residual orthogonal to x^{}", k);
        k += 1;
    }
}
harness!(name=c14_fit_d0_n1, prop=C14, mode=R, kind=normal, tier=quick, unwind=20, { fit_h::<0, 1>() });
harness!(name=c14_fit_d0_n3, prop=C14, mode=R, kind=normal, tier=quick, unwind=20, { fit_h::<0, 3>() });
harness!(name=c14_fit_d1_n2, prop=C14, mode=R, kind=normal, tier=thorough, unwind=20, { fit_h::<1, 2>() });
harness!(name=c14_fit_d1_n3, prop=C14, mode=R, kind=normal, tier=thorough, unwind=20, { fit_h::<1, 3>() });

// @bound c14_predict_: degree D (instance), symbolic coefficients (public field) and two evaluation points
// @claim c14_predict_: predict evaluates c0 + c1 x + ... + cD x^D at each point, one output per point (R)
fn predict_h<const D: usize, const M: usize>() {
    let c = inp::vec(0, D + 1);
    let xs = inp::vec(100, M);
    for v in c.iter().chain(xs.iter()) {
        vassume!(*v >= -1.0e2 && *v <= 1.0e2);
    }
    // through the constructor and the public field (a struct literal would stop compiling if a private field were added)
    let mut pr = PolynomialRegressor::new(D);
    pr.coef = c.clone();
    let out = pr.predict(&xs);
    vassert!(out.len() == M, "predict returned {} values for {} points", out.len(), M);
    let mut i = 0;
    while i < M && i < out.len() {
        let mut p = 0.0;
        let mut j = 0;
        while j <= D {
            p += c[j] * powu(xs[i], j);
            j += 1;
        }
        vclose!(out[i], p, 1e-6 * (1.0 + fabs(p)), "polynomial value at point {}", i);
        i += 1;
    }
}
harness!(name=c14_predict_d0, prop=C14, mode=R, kind=normal, tier=quick, unwind=12, { predict_h::<0, 2>() });
harness!(name=c14_predict_d1, prop=C14, mode=R, kind=normal, tier=quick, unwind=12, { predict_h::<1, 2>() });
harness!(name=c14_predict_d2, prop=C14, mode=R, kind=normal, tier=quick, unwind=12, { predict_h::<2, 2>() });
harness!(name=c14_predict_d4, prop=C14, mode=R, kind=normal, tier=quick, unwind=12, { predict_h::<4, 1>() });
harness!(name=c14_predict_d6, prop=C14, mode=R, kind=normal, tier=thorough, unwind=12, { predict_h::<6, 2>() });
harness!(name=c14_fit_mismatch, prop=C14, mode=R, kind=mustpanic, tier=quick, unwind=12, {
    let x: [f64; 3] = inp::arr(0);
    let y: [f64; 2] = inp::arr(100);
    let mut pr = PolynomialRegressor::new(1);
    crate::vmustpanic!(pr.fit(&x, &y), "x and y lengths differ");
});

// @bound c14_refit_: degree D, N points per fit (instance); both data sets arbitrary bit patterns (floating-point operations opaque, U); instance "ends": the second abscissae share their first and last value with the first ones
// @claim c14_refit_: fitting an object that was already fitted on other data gives bit-identical coefficients to fitting a fresh object (no state carried from one fit to the next) (U)
// @modes c14_refit_: U
// @cap c14_refit_: 40
fn refit<const D: usize, const N: usize>(share_ends: bool) {
    let x1: [f64; N] = inp::arr(0);
    let y1: [f64; N] = inp::arr(20);
    let mut x2: [f64; N] = inp::arr(40);
    let y2: [f64; N] = inp::arr(60);
    if share_ends {
        x2[0] = x1[0];
        x2[N - 1] = x1[N - 1];
    }
    let mut pr = PolynomialRegressor::new(D);
    pr.fit(&x1, &y1);
    pr.fit(&x2, &y2);
    let mut fresh = PolynomialRegressor::new(D);
    fresh.fit(&x2, &y2);
    vassert!(pr.coef.len() == D + 1 && fresh.coef.len() == D + 1, "coefficient count after a second fit");
    let mut i = 0;
    while i <= D {
        crate::vbits!(pr.coef[i], fresh.coef[i], "coefficient {} after a second fit", i);
        i += 1;
    }
}
harness!(name=c14_refit_d0, prop=C14, mode=U, kind=normal, tier=quick, unwind=20, { refit::<0, 2>(false) });
harness!(name=c14_refit_d1_ends, prop=C14, mode=U, kind=normal, tier=quick, unwind=20, { refit::<1, 3>(true) });
harness!(name=c14_refit_d1, prop=C14, mode=U, kind=normal, tier=thorough, unwind=20, { refit::<1, 3>(false) });
