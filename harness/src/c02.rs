//! C02 Densities and mass functions are proper and match the stated mean and variance.
//! The gamma function inside normalising constants is an uninterpreted function here (its accuracy is
//! C09's subject): the textbook formula in the harness uses the same symbol.
use crate::rt::{fabs, gamma_uf as g, inp};
use crate::{harness_g, vassert, vassume, vclose, vmustpanic};
use compute::distributions::*;
use std::f64::consts::PI;

fn par(k: u32, lo: f64, hi: f64) -> f64 {
    let v = inp::f64(k);
    vassume!(v >= lo && v <= hi);
    v
}
fn rel(want: f64) -> f64 {
    1e-9 * (1.0 + fabs(want))
}

// @axioms c02_: exp_pos pow_pos gamma_pos
// @bound c02_: every parameter value in the stated valid range and every evaluation point in ±1e3 (symbolic); exp / pow / ln / gamma uninterpreted (same symbols on both sides)
// @claim c02_normal: pdf = exp(-(x-mu)^2/(2 sigma^2)) / (sigma sqrt(2 pi)) >= 0; mean = mu; variance = sigma^2 (R)
harness_g!(name=c02_normal, prop=C02, mode=R, kind=normal, tier=quick, unwind=6, {
    let (mu, s, x) = (par(0, -1.0e3, 1.0e3), par(1, 1.0e-3, 1.0e3), par(2, -1.0e3, 1.0e3));
    let d = Normal::new(mu, s);
    let want = (-(x - mu) * (x - mu) / (2.0 * s * s)).exp() / (s * (2.0 * PI).sqrt());
    vclose!(d.pdf(x), want, rel(want), "Normal pdf");
    vassert!(d.pdf(x) >= 0.0, "Normal pdf negative");
    vclose!(d.mean(), mu, 1e-12, "Normal mean");
    vclose!(d.var(), s * s, 1e-9 * s * s, "Normal variance");
});
// @axioms c02_normal_lnpdf: exp_pos log_mul exp_log log_recip
// @claim c02_normal_lnpdf: ln_pdf = ln(pdf) for the Normal override (R with ln(ab) = ln a + ln b, ln(exp t) = t, ln(1/c) = -ln c instantiated)
harness_g!(name=c02_normal_lnpdf, prop=C02, mode=R, kind=normal, tier=quick, unwind=6, {
    let (mu, s, x) = (par(0, -1.0e3, 1.0e3), par(1, 1.0e-3, 1.0e3), par(2, -1.0e3, 1.0e3));
    let d = Normal::new(mu, s);
    let c = s * (2.0 * PI).sqrt();
    let z = (x - mu) / s;
    let e = (-0.5 * z * z).exp();
    // the pieces ln is applied to, so that the log laws are instantiated on them
    let (l1, l2, l3) = ((1.0 / c).ln(), e.ln(), c.ln());
    vassume!(l1 + l3 == l1 + l3 && l2 == l2);
    let lp = d.pdf(x).ln();
    vclose!(d.ln_pdf(x), lp, 1e-9 * (1.0 + fabs(lp)), "Normal ln_pdf");
});
// @claim c02_gamma: pdf = b^a x^(a-1) e^(-bx) / Gamma(a) for x > 0 and 0 for x <= 0; mean a/b; variance a/b^2
harness_g!(name=c02_gamma, prop=C02, mode=R, kind=normal, tier=quick, unwind=6, {
    let (a, b, x) = (par(0, 1.0e-3, 1.0e3), par(1, 1.0e-3, 1.0e3), par(2, -1.0e3, 1.0e3));
    let d = Gamma::new(a, b);
    let want = if x > 0.0 { b.powf(a) * x.powf(a - 1.0) * (-b * x).exp() / g(a) } else { 0.0 };
    vclose!(d.pdf(x), want, rel(want), "Gamma pdf");
    vassert!(d.pdf(x) >= 0.0, "Gamma pdf negative");
    vclose!(d.mean(), a / b, rel(a / b), "Gamma mean");
    vclose!(d.var(), a / (b * b), rel(a / (b * b)), "Gamma variance");
});
// @claim c02_beta: pdf = x^(a-1) (1-x)^(b-1) Gamma(a+b) / (Gamma(a) Gamma(b)) on [0,1], 0 outside; mean a/(a+b); variance ab/((a+b)^2 (a+b+1))
harness_g!(name=c02_beta, prop=C02, mode=R, kind=normal, tier=quick, unwind=6, {
    let (a, b, x) = (par(0, 1.0e-3, 1.0e3), par(1, 1.0e-3, 1.0e3), par(2, -2.0, 3.0));
    let d = Beta::new(a, b);
    let want = if x >= 0.0 && x <= 1.0 { x.powf(a - 1.0) * (1.0 - x).powf(b - 1.0) * g(a + b) / (g(a) * g(b)) } else { 0.0 };
    vclose!(d.pdf(x), want, rel(want), "Beta pdf");
    vclose!(d.mean(), a / (a + b), 1e-9, "Beta mean");
    let v = a * b / ((a + b) * (a + b) * (a + b + 1.0));
    vclose!(d.var(), v, rel(v), "Beta variance");
});
// @claim c02_chi2_: pdf = x^(k/2-1) e^(-x/2) / (2^(k/2) Gamma(k/2)) for x > 0, 0 for x < 0; mean k; variance 2k (one instance per k)
fn chi2(k: usize) {
    let x = par(2, -1.0e3, 1.0e3);
    let d = ChiSquared::new(k);
    let h = k as f64 / 2.0;
    if x > 0.0 {
        let want = x.powf(h - 1.0) * (-x / 2.0).exp() / (2.0f64.powf(h) * g(h));
        vclose!(d.pdf(x), want, rel(want), "ChiSquared pdf dof {}", k);
    }
    if x < 0.0 {
        vclose!(d.pdf(x), 0.0, 0.0, "ChiSquared pdf below the support");
    }
    vclose!(d.mean(), k as f64, 1e-12, "ChiSquared mean");
    vclose!(d.var(), 2.0 * k as f64, 1e-12, "ChiSquared variance");
}
harness_g!(name=c02_chi2_1, prop=C02, mode=R, kind=normal, tier=quick, unwind=6, { chi2(1) });
harness_g!(name=c02_chi2_2, prop=C02, mode=R, kind=normal, tier=quick, unwind=6, { chi2(2) });
harness_g!(name=c02_chi2_7, prop=C02, mode=R, kind=normal, tier=quick, unwind=6, { chi2(7) });
// @claim c02_t: pdf = Gamma((v+1)/2) / (sqrt(v pi) Gamma(v/2)) (1 + x^2/v)^(-(v+1)/2); mean 0 for v > 1; variance v/(v-2) for v > 2
harness_g!(name=c02_t, prop=C02, mode=R, kind=normal, tier=quick, unwind=6, {
    let (v, x) = (par(0, 1.0e-2, 2.0e2), par(2, -1.0e3, 1.0e3));
    let d = T::new(v);
    let want = g((v + 1.0) / 2.0) / ((v * PI).sqrt() * g(v / 2.0)) * (1.0 + x * x / v).powf(-(v + 1.0) / 2.0);
    vclose!(d.pdf(x), want, rel(want), "T pdf");
    if v > 1.0 {
        vclose!(d.mean(), 0.0, 0.0, "T mean");
    }
    if v > 2.0 {
        vclose!(d.var(), v / (v - 2.0), rel(v / (v - 2.0)), "T variance");
    }
});
// @claim c02_pareto: pdf = a m^a / x^(a+1) for x >= m, 0 below; mean a m/(a-1) for a > 1; variance m^2 a / ((a-1)^2 (a-2)) for a > 2
harness_g!(name=c02_pareto, prop=C02, mode=R, kind=normal, tier=quick, unwind=6, {
    let (a, m, x) = (par(0, 1.0e-2, 1.0e2), par(1, 1.0e-3, 1.0e3), par(2, -1.0e3, 1.0e4));
    let d = Pareto::new(a, m);
    let want = if x >= m { a * m.powf(a) / x.powf(a + 1.0) } else { 0.0 };
    vclose!(d.pdf(x), want, rel(want), "Pareto pdf");
    if a > 1.0 {
        vclose!(d.mean(), a * m / (a - 1.0), rel(a * m / (a - 1.0)), "Pareto mean");
    }
    if a > 2.0 {
        let v = m * m * a / ((a - 1.0) * (a - 1.0) * (a - 2.0));
        vclose!(d.var(), v, rel(v), "Pareto variance");
    }
});
// @claim c02_gumbel: pdf = exp(-(z + e^-z))/b with z = (x-mu)/b; mean mu + gamma_E b; variance pi^2 b^2 / 6
harness_g!(name=c02_gumbel, prop=C02, mode=R, kind=normal, tier=quick, unwind=6, {
    let (mu, b, x) = (par(0, -1.0e3, 1.0e3), par(1, 1.0e-3, 1.0e3), par(2, -1.0e3, 1.0e3));
    let d = Gumbel::new(mu, b);
    let z = (x - mu) / b;
    let want = (-(z + (-z).exp())).exp() / b;
    vclose!(d.pdf(x), want, rel(want), "Gumbel pdf");
    vclose!(d.mean(), mu + 0.5772156649015329 * b, 1e-9 * (1.0 + fabs(mu) + b), "Gumbel mean");
    let v = PI * PI / 6.0 * b * b;
    vclose!(d.var(), v, rel(v), "Gumbel variance");
});
// @claim c02_exponential: pdf = l e^(-l x) for x >= 0, 0 below; mean 1/l; variance 1/l^2
harness_g!(name=c02_exponential, prop=C02, mode=R, kind=normal, tier=quick, unwind=6, {
    let (l, x) = (par(0, 1.0e-3, 1.0e3), par(2, -1.0e3, 1.0e3));
    let d = Exponential::new(l);
    let want = if x >= 0.0 { l * (-l * x).exp() } else { 0.0 };
    vclose!(d.pdf(x), want, rel(want), "Exponential pdf");
    vassert!(d.pdf(x) >= 0.0, "Exponential pdf negative");
    vclose!(d.mean(), 1.0 / l, rel(1.0 / l), "Exponential mean");
    vclose!(d.var(), 1.0 / (l * l), rel(1.0 / (l * l)), "Exponential variance");
});
// @claim c02_uniform: pdf = 1/(b-a) on [a,b], 0 outside; mean (a+b)/2; variance (b-a)^2/12
harness_g!(name=c02_uniform, prop=C02, mode=R, kind=normal, tier=quick, unwind=6, {
    let (a, w, x) = (par(0, -1.0e3, 1.0e3), par(1, 1.0e-3, 1.0e3), par(2, -3.0e3, 3.0e3));
    let b = a + w;
    let d = Uniform::new(a, b);
    let want = if x >= a && x <= b { 1.0 / (b - a) } else { 0.0 };
    vclose!(d.pdf(x), want, rel(want), "Uniform pdf");
    vclose!(d.mean(), (a + b) / 2.0, 1e-9 * (1.0 + fabs(a) + fabs(b)), "Uniform mean");
    vclose!(d.var(), (b - a) * (b - a) / 12.0, rel(w * w), "Uniform variance");
});

// ---- discrete laws
fn fact(k: i64) -> f64 {
    let mut r = 1.0;
    let mut i = 2;
    while i <= k {
        r *= i as f64;
        i += 1;
    }
    r
}
// @claim c02_poisson_: pmf(k) = l^k e^-l / k! for k >= 0 (one instance per k; Gamma(k+1) = k! supplied for the uninterpreted gamma), 0 for k < 0; mean = variance = l
fn poisson(k: i64) {
    let l = par(0, 1.0e-3, 1.0e3);
    let d = Poisson::new(l);
    // the factorial values of the uninterpreted gamma at the integers that matter
    #[cfg(kani)]
    vassume!(g(1.0) == 1.0 && g(2.0) == 1.0 && g(3.0) == 2.0 && g(4.0) == 6.0 && g(5.0) == 24.0);
    let want = if k < 0 {
        0.0
    } else {
        let mut p = 1.0;
        let mut i = 0;
        while i < k {
            p *= l;
            i += 1;
        }
        p * (-l).exp() / fact(k)
    };
    vclose!(d.pmf(k), want, rel(want), "Poisson pmf({})", k);
    vclose!(d.mean(), l, 1e-12 * l, "Poisson mean");
    vclose!(d.var(), l, 1e-12 * l, "Poisson variance");
}
harness_g!(name=c02_poisson_m1, prop=C02, mode=R, kind=normal, tier=quick, unwind=8, { poisson(-1) });
harness_g!(name=c02_poisson_0, prop=C02, mode=R, kind=normal, tier=quick, unwind=8, { poisson(0) });
harness_g!(name=c02_poisson_1, prop=C02, mode=R, kind=normal, tier=quick, unwind=8, { poisson(1) });
harness_g!(name=c02_poisson_3, prop=C02, mode=R, kind=normal, tier=quick, unwind=8, { poisson(3) });
// @claim c02_binomial_: pmf(k) = C(n,k) p^k (1-p)^(n-k) for 0 <= k <= n and 0 (no panic) for k < 0 or k > n; the masses sum to 1; mean np; variance np(1-p) (one instance per n; k runs over -2..n+2)
fn binomial(n: u64) {
    let p = par(0, 0.0, 1.0);
    let d = Binomial::new(n, p);
    let mut total = 0.0;
    let mut k: i64 = -2;
    while k <= n as i64 + 2 {
        let got = d.pmf(k);
        if k < 0 || k > n as i64 {
            vclose!(got, 0.0, 0.0, "Binomial pmf({}) outside the support", k);
        } else {
            let mut c = 1.0;
            let mut i = 0;
            while i < k {
                c = c * (n as i64 - i) as f64 / (i + 1) as f64;
                i += 1;
            }
            let mut w = c;
            let mut i = 0;
            while i < n as i64 {
                w *= if i < k { p } else { 1.0 - p };
                i += 1;
            }
            vclose!(got, w, 1e-12, "Binomial pmf({})", k);
            total += got;
        }
        k += 1;
    }
    vclose!(total, 1.0, 1e-12, "Binomial total mass");
    vclose!(d.mean(), n as f64 * p, 1e-12, "Binomial mean");
    vclose!(d.var(), n as f64 * p * (1.0 - p), 1e-12, "Binomial variance");
}
harness_g!(name=c02_binomial_0, prop=C02, mode=R, kind=normal, tier=quick, unwind=12, { binomial(0) });
harness_g!(name=c02_binomial_1, prop=C02, mode=R, kind=normal, tier=quick, unwind=12, { binomial(1) });
harness_g!(name=c02_binomial_3, prop=C02, mode=R, kind=normal, tier=quick, unwind=12, { binomial(3) });
// @claim c02_bernoulli: pmf(0) = 1-p, pmf(1) = p, 0 elsewhere, total 1; mean p; variance p(1-p)
harness_g!(name=c02_bernoulli, prop=C02, mode=R, kind=normal, tier=quick, unwind=6, {
    let p = par(0, 0.0, 1.0);
    let k = inp::i64(0);
    let d = Bernoulli::new(p);
    let want = if k == 0 { 1.0 - p } else if k == 1 { p } else { 0.0 };
    vclose!(d.pmf(k), want, 1e-15, "Bernoulli pmf");
    vclose!(d.pmf(0) + d.pmf(1), 1.0, 1e-15, "Bernoulli total mass");
    vclose!(d.mean(), p, 0.0, "Bernoulli mean");
    vclose!(d.var(), p * (1.0 - p), 1e-15, "Bernoulli variance");
});
// @claim c02_duniform_: pmf = 1/(b-a+1) on a..=b, 0 outside, total 1; mean (a+b)/2; variance ((b-a+1)^2 - 1)/12 (lower bound symbolic, one instance per width)
fn duniform(width: i64) {
    let a = inp::i64(0);
    vassume!(a >= -1000 && a <= 1000);
    let b = a + width;
    let d = DiscreteUniform::new(a, b);
    let k = inp::i64(1);
    vassume!(k >= -1100 && k <= 1100);
    let n = (width + 1) as f64;
    let want = if k >= a && k <= b { 1.0 / n } else { 0.0 };
    vclose!(d.pmf(k), want, 1e-15, "DiscreteUniform pmf");
    let mut total = 0.0;
    let mut j = 0;
    while j <= width {
        total += d.pmf(a + j);
        j += 1;
    }
    vclose!(total, 1.0, 1e-12, "DiscreteUniform total mass");
    vclose!(d.mean(), (a as f64 + b as f64) / 2.0, 1e-9, "DiscreteUniform mean");
    vclose!(d.var(), (n * n - 1.0) / 12.0, 1e-9, "DiscreteUniform variance");
}
harness_g!(name=c02_duniform_0, prop=C02, mode=R, kind=normal, tier=quick, unwind=8, { duniform(0) });
harness_g!(name=c02_duniform_1, prop=C02, mode=R, kind=normal, tier=quick, unwind=8, { duniform(1) });
harness_g!(name=c02_duniform_3, prop=C02, mode=R, kind=normal, tier=quick, unwind=8, { duniform(3) });

// @claim c02_reject_: invalid parameters are rejected by a panic (one representative per family)
fn reject(which: u8) {
    let (a, b) = (inp::f64(0), inp::f64(1));
    match which {
        0 => { vassume!(b < 0.0); vmustpanic!(Normal::new(a, b), "Normal sigma < 0"); }
        1 => { vassume!(a <= 0.0); vmustpanic!(Gamma::new(a, b), "Gamma alpha <= 0"); }
        2 => { vassume!(a > 0.0 && b <= 0.0); vmustpanic!(Beta::new(a, b), "Beta beta <= 0"); }
        3 => { vassume!(a <= 0.0); vmustpanic!(Exponential::new(a), "Exponential lambda <= 0"); }
        4 => { vassume!(a > b); vmustpanic!(Uniform::new(a, b), "Uniform lower > upper"); }
        5 => { vassume!(a < 0.0 || a > 1.0); vmustpanic!(Bernoulli::new(a), "Bernoulli p outside [0,1]"); }
        6 => { vassume!(a <= 0.0); vmustpanic!(Poisson::new(a), "Poisson lambda <= 0"); }
        7 => { vassume!(a <= 0.0); vmustpanic!(T::new(a), "T dof <= 0"); }
        8 => { vassume!(a > 0.0 && b <= 0.0); vmustpanic!(Pareto::new(a, b), "Pareto minval <= 0"); }
        9 => { vassume!(b <= 0.0); vmustpanic!(Gumbel::new(a, b), "Gumbel beta <= 0"); }
        _ => { vassume!(a < 0.0 || a > 1.0); vmustpanic!(Binomial::new(3, a), "Binomial p outside [0,1]"); }
    }
}
harness_g!(name=c02_reject_0, prop=C02, mode=R, kind=mustpanic, tier=quick, unwind=6, { reject(0) });
harness_g!(name=c02_reject_1, prop=C02, mode=R, kind=mustpanic, tier=quick, unwind=6, { reject(1) });
harness_g!(name=c02_reject_2, prop=C02, mode=R, kind=mustpanic, tier=quick, unwind=6, { reject(2) });
harness_g!(name=c02_reject_3, prop=C02, mode=R, kind=mustpanic, tier=quick, unwind=6, { reject(3) });
harness_g!(name=c02_reject_4, prop=C02, mode=R, kind=mustpanic, tier=quick, unwind=6, { reject(4) });
harness_g!(name=c02_reject_5, prop=C02, mode=R, kind=mustpanic, tier=quick, unwind=6, { reject(5) });
harness_g!(name=c02_reject_6, prop=C02, mode=R, kind=mustpanic, tier=quick, unwind=6, { reject(6) });
harness_g!(name=c02_reject_7, prop=C02, mode=R, kind=mustpanic, tier=quick, unwind=6, { reject(7) });
harness_g!(name=c02_reject_8, prop=C02, mode=R, kind=mustpanic, tier=quick, unwind=6, { reject(8) });
harness_g!(name=c02_reject_9, prop=C02, mode=R, kind=mustpanic, tier=quick, unwind=6, { reject(9) });
harness_g!(name=c02_reject_10, prop=C02, mode=R, kind=mustpanic, tier=quick, unwind=6, { reject(10) });

// @claim c02_binomial_big_: at the top of the 64-bit range (n = 63..67, k near n/2; one instance per pair, p symbolic) the mass is C(n,k) p^k (1-p)^(n-k) with the exact integer coefficient and no overflow panic (R; the coefficient loop is concrete and folds in the symbolic executor)
fn binomial_big(n: u64, k: i64, coeff: u64) {
    let p = par(0, 0.0, 1.0);
    let d = Binomial::new(n, p);
    let got = d.pmf(k);
    let want = coeff as f64 * p.powi(k as i32) * (1.0 - p).powi((n as i64 - k) as i32);
    vclose!(got, want, 1e-9 * (1.0 + fabs(want)), "Binomial({}, p).pmf({})", n, k);
}
harness_g!(name=c02_binomial_big_64_32, prop=C02, mode=R, kind=normal, tier=quick, unwind=40, { binomial_big(64, 32, 1832624140942590534) });
harness_g!(name=c02_binomial_big_67_33, prop=C02, mode=R, kind=normal, tier=quick, unwind=40, { binomial_big(67, 33, 14226520737620288370) });
harness_g!(name=c02_binomial_big_66_33, prop=C02, mode=R, kind=normal, tier=quick, unwind=40, { binomial_big(66, 33, 7219428434016265740) });
harness_g!(name=c02_binomial_big_63_31, prop=C02, mode=R, kind=normal, tier=quick, unwind=40, { binomial_big(63, 31, 916312070471295267) });

// @claim c02_setters_: the density keeps matching the textbook formula of the CURRENT parameters after setters (Beta, Gamma; cached state must follow)
harness_g!(name=c02_setters_beta, prop=C02, mode=R, kind=normal, tier=quick, unwind=6, {
    let (a0, b0) = (par(3, 0.5, 20.0), par(4, 0.5, 20.0));
    let (a, b, x) = (par(0, 0.5, 20.0), par(1, 0.5, 20.0), par(2, 0.05, 0.95));
    let mut d = Beta::new(a0, b0);
    d.set_alpha(a).set_beta(b);
    let want = x.powf(a - 1.0) * (1.0 - x).powf(b - 1.0) * g(a + b) / (g(a) * g(b));
    vclose!(d.pdf(x), want, rel(want), "Beta pdf after setters");
    let mut e = Beta::new(a0, b0);
    e.update(&[a, b]);
    vclose!(e.pdf(x), want, rel(want), "Beta pdf after update");
});
harness_g!(name=c02_setters_gamma, prop=C02, mode=R, kind=normal, tier=quick, unwind=6, {
    let (a0, b0) = (par(3, 0.5, 20.0), par(4, 0.5, 20.0));
    let (a, b, x) = (par(0, 0.5, 20.0), par(1, 0.5, 20.0), par(2, 0.05, 20.0));
    let mut d = Gamma::new(a0, b0);
    d.set_beta(b).set_alpha(a);
    let want = b.powf(a) * x.powf(a - 1.0) * (-b * x).exp() / g(a);
    vclose!(d.pdf(x), want, rel(want), "Gamma pdf after setters");
});
