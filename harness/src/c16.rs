//! C16 Linear interpolation reproduces knots and honours the out-of-range mode.
use crate::rt::inp;
use crate::{harness, vassert, vassume, vclose, vmustpanic};
use compute::functions::*;

fn mode(which: u8, l: f64, r: f64) -> ExtrapolationMode {
    match which {
        0 => ExtrapolationMode::Panic,
        1 => ExtrapolationMode::Fill(l, r),
        _ => ExtrapolationMode::Extrapolate,
    }
}
fn knots<const M: usize>() -> ([f64; M], [f64; M]) {
    let x: [f64; M] = inp::arr(0);
    let y: [f64; M] = inp::arr(100);
    let mut i = 0;
    while i < M {
        vassume!(x[i].is_finite() && y[i].is_finite());
        vassume!(x[i] >= -1.0e6 && x[i] <= 1.0e6 && y[i] >= -1.0e6 && y[i] <= 1.0e6);
        if i > 0 {
            vassume!(x[i - 1] < x[i]);
        }
        i += 1;
    }
    (x, y)
}
fn call(x: &[f64], y: &[f64], t: f64, which: u8, l: f64, r: f64, checked: bool) -> f64 {
    let v = if checked {
        interp1d_linear(x, y, &[t], mode(which, l, r))
    } else {
        interp1d_linear_unchecked(x, y, &[t], mode(which, l, r))
    };
    vassert!(v.len() == 1, "one target, {} results", v.len());
    v[0]
}

// @bound c16_knot_: M knots (instance), strictly increasing finite abscissae and finite ordinates in ±1e6, target = knot K for every K, all three modes, checked and unchecked
// @claim c16_knot_: interpolating at a knot returns that knot's ordinate (R: algebraically exact; the bit-precise query - fp.sub/div/mul chains - did not finish within 900 s in z3's FP theory and is outside the claim)
fn at_knot<const M: usize>(k: usize, which: u8, checked: bool) {
    let (x, y) = knots::<M>();
    let (l, r) = (inp::f64(200), inp::f64(201));
    let got = call(&x, &y, x[k], which, l, r, checked);
    vassert!(got == y[k], "knot {} of {}: got {:e} want {:e}", k, M, got, y[k]);
}
fn at_knot_all<const M: usize>(which: u8, checked: bool) {
    let mut k = 0;
    while k < M {
        at_knot::<M>(k, which, checked);
        k += 1;
    }
}
harness!(name=c16_knot_2_panic, prop=C16, mode=R, kind=normal, tier=quick, unwind=5, { at_knot_all::<2>(0, true) });
harness!(name=c16_knot_2_fill, prop=C16, mode=R, kind=normal, tier=quick, unwind=5, { at_knot_all::<2>(1, false) });
harness!(name=c16_knot_2_extra, prop=C16, mode=R, kind=normal, tier=quick, unwind=5, { at_knot_all::<2>(2, true) });
harness!(name=c16_knot_3_panic, prop=C16, mode=R, kind=normal, tier=quick, unwind=6, { at_knot_all::<3>(0, false) });
harness!(name=c16_knot_3_extra, prop=C16, mode=R, kind=normal, tier=quick, unwind=6, { at_knot_all::<3>(2, true) });

// @bound c16_inside_: M knots and segment j (instance), symbolic target in [x_j, x_{j+1}], all three modes, checked and unchecked
// @claim c16_inside_: the value is y_j + (t - x_j)(y_{j+1} - y_j)/(x_{j+1} - x_j) for the bracketing segment (which lies between the neighbouring ordinates) (R)
fn inside<const M: usize>(j: usize, which: u8, checked: bool) {
    let (x, y) = knots::<M>();
    let t = inp::f64(210);
    let (l, r) = (inp::f64(200), inp::f64(201));
    vassume!(t >= x[j] && t <= x[j + 1]);
    let got = call(&x, &y, t, which, l, r, checked);
    // the point (t, got) lies on the line through (x_j, y_j) and (x_{j+1}, y_{j+1}); stated without division
    let d = x[j + 1] - x[j];
    vclose!((got - y[j]) * d, (t - x[j]) * (y[j + 1] - y[j]), 1e-6 * (1.0 + y[j].abs() + y[j + 1].abs()) * d, "inside segment {}", j);
}
harness!(name=c16_inside_2_s0_panic, prop=C16, mode=R, kind=normal, tier=quick, unwind=5, { inside::<2>(0, 0, true) });
harness!(name=c16_inside_3_s0_panic, prop=C16, mode=R, kind=normal, tier=quick, unwind=6, { inside::<3>(0, 0, false) });
harness!(name=c16_inside_3_s1_panic, prop=C16, mode=R, kind=normal, tier=quick, unwind=6, { inside::<3>(1, 0, true) });
harness!(name=c16_inside_3_s0_fill, prop=C16, mode=R, kind=normal, tier=quick, unwind=6, { inside::<3>(0, 1, true) });
harness!(name=c16_inside_3_s1_fill, prop=C16, mode=R, kind=normal, tier=quick, unwind=6, { inside::<3>(1, 1, false) });
harness!(name=c16_inside_3_s1_extra, prop=C16, mode=R, kind=normal, tier=quick, unwind=6, { inside::<3>(1, 2, true) });
harness!(name=c16_inside_4_s0_fill, prop=C16, mode=R, kind=normal, tier=quick, unwind=7, { inside::<4>(0, 1, false) });
harness!(name=c16_inside_4_s1_extra, prop=C16, mode=R, kind=normal, tier=quick, unwind=7, { inside::<4>(1, 2, true) });
harness!(name=c16_inside_4_s2_panic, prop=C16, mode=R, kind=normal, tier=quick, unwind=7, { inside::<4>(2, 0, true) });
harness!(name=c16_inside_5_s3_panic, prop=C16, mode=R, kind=normal, tier=thorough, unwind=8, { inside::<5>(3, 0, true) });
harness!(name=c16_inside_5_s1_fill, prop=C16, mode=R, kind=normal, tier=thorough, unwind=8, { inside::<5>(1, 1, true) });
harness!(name=c16_inside_6_s4_extra, prop=C16, mode=R, kind=normal, tier=thorough, unwind=9, { inside::<6>(4, 2, false) });

// @bound c16_outside_: M knots (instance), symbolic target strictly below x0 or strictly above x_{M-1}
// @claim c16_outside_: Fill returns the left / right fill value; Extrapolate continues the first / last segment's line (R)
fn outside<const M: usize>(which: u8, right: bool, checked: bool) {
    let (x, y) = knots::<M>();
    let t = inp::f64(210);
    let (l, r) = (inp::f64(200), inp::f64(201));
    vassume!(l >= -1.0e6 && l <= 1.0e6 && r >= -1.0e6 && r <= 1.0e6 && t >= -1.0e7 && t <= 1.0e7);
    if right {
        vassume!(t > x[M - 1]);
    } else {
        vassume!(t < x[0]);
    }
    let got = call(&x, &y, t, which, l, r, checked);
    if which == 1 {
        vassert!(got == if right { r } else { l }, "fill {}: got {:e} (l={:e}, r={:e})", if right { "right" } else { "left" }, got, l, r);
    } else {
        let (a, b) = if right { (M - 2, M - 1) } else { (0, 1) };
        let want = y[a] + (t - x[a]) * (y[b] - y[a]) / (x[b] - x[a]);
        vclose!(got, want, 1e-6 * (1.0 + want.abs() + y[a].abs() + y[b].abs()), "extrapolate {}", if right { "right" } else { "left" });
    }
}
harness!(name=c16_outside_2_fill_l, prop=C16, mode=R, kind=normal, tier=quick, unwind=5, { outside::<2>(1, false, true) });
harness!(name=c16_outside_2_fill_r, prop=C16, mode=R, kind=normal, tier=quick, unwind=5, { outside::<2>(1, true, true) });
harness!(name=c16_outside_3_fill_r, prop=C16, mode=R, kind=normal, tier=quick, unwind=6, { outside::<3>(1, true, false) });
harness!(name=c16_outside_3_extra_l, prop=C16, mode=R, kind=normal, tier=quick, unwind=6, { outside::<3>(2, false, true) });
harness!(name=c16_outside_3_extra_r, prop=C16, mode=R, kind=normal, tier=quick, unwind=6, { outside::<3>(2, true, true) });
harness!(name=c16_outside_4_fill_l, prop=C16, mode=R, kind=normal, tier=thorough, unwind=7, { outside::<4>(1, false, false) });
harness!(name=c16_outside_4_extra_r, prop=C16, mode=R, kind=normal, tier=thorough, unwind=7, { outside::<4>(2, true, false) });

// @claim c16_panic_: in Panic mode a target below the first or above the last abscissa panics (R)
fn outside_panic<const M: usize>(right: bool, checked: bool) {
    let (x, y) = knots::<M>();
    let t = inp::f64(210);
    if right {
        vassume!(t > x[M - 1]);
    } else {
        vassume!(t < x[0]);
    }
    if checked {
        vmustpanic!(interp1d_linear(&x, &y, &[t], ExtrapolationMode::Panic), "out of range, panic mode");
    } else {
        vmustpanic!(interp1d_linear_unchecked(&x, &y, &[t], ExtrapolationMode::Panic), "out of range, panic mode");
    }
}
harness!(name=c16_panic_2_l, prop=C16, mode=R, kind=mustpanic, tier=quick, unwind=5, { outside_panic::<2>(false, true) });
harness!(name=c16_panic_2_r, prop=C16, mode=R, kind=mustpanic, tier=quick, unwind=5, { outside_panic::<2>(true, true) });
harness!(name=c16_panic_3_l, prop=C16, mode=R, kind=mustpanic, tier=quick, unwind=6, { outside_panic::<3>(false, false) });
harness!(name=c16_panic_3_r, prop=C16, mode=R, kind=mustpanic, tier=quick, unwind=6, { outside_panic::<3>(true, false) });

// @claim c16_checked_: the checked variant panics on abscissae that are not ascending and on mismatched lengths (R)
fn unsorted<const M: usize>() {
    let x: [f64; M] = inp::arr(0);
    let y: [f64; M] = inp::arr(100);
    let t = inp::f64(210);
    let k = inp::usize(0);
    vassume!(k + 1 < M);
    vassume!(x[k + 1] < x[k]);
    vmustpanic!(interp1d_linear(&x, &y, &[t], ExtrapolationMode::Extrapolate), "unsorted abscissae");
}
harness!(name=c16_checked_unsorted_2, prop=C16, mode=R, kind=mustpanic, tier=quick, unwind=5, { unsorted::<2>() });
harness!(name=c16_checked_unsorted_4, prop=C16, mode=R, kind=mustpanic, tier=quick, unwind=7, { unsorted::<4>() });
harness!(name=c16_checked_mismatch, prop=C16, mode=R, kind=mustpanic, tier=quick, unwind=6, {
    let x: [f64; 3] = inp::arr(0);
    let y: [f64; 2] = inp::arr(100);
    vmustpanic!(interp1d_linear(&x, &y, &[inp::f64(210)], ExtrapolationMode::Extrapolate), "length mismatch");
});
harness!(name=c16_unchecked_mismatch, prop=C16, mode=R, kind=mustpanic, tier=quick, unwind=6, {
    let x: [f64; 2] = inp::arr(0);
    let y: [f64; 3] = inp::arr(100);
    vmustpanic!(interp1d_linear_unchecked(&x, &y, &[inp::f64(210)], ExtrapolationMode::Extrapolate), "length mismatch");
});
harness!(name=c16_knot_4_fill, prop=C16, mode=R, kind=normal, tier=quick, unwind=7, { at_knot_all::<4>(1, true) });
harness!(name=c16_knot_5_panic, prop=C16, mode=R, kind=normal, tier=thorough, unwind=8, { at_knot_all::<5>(0, true) });

// @bound c16_multi_: M knots and T targets in ONE call (instance), the targets symbolic and in any order (ascending, descending, repeated, in or out of range for Fill / Extrapolate; in range for Panic)
// @claim c16_multi_: a call with several targets returns one value per target, and position i holds exactly what a call with target i alone returns - so the single-target obligations (c16_knot_, c16_inside_, c16_outside_) carry over to every target of a multi-target call whatever the order of the targets (R; state carried from one target to the next shows up here)
fn multi<const M: usize, const T: usize>(which: u8, checked: bool) {
    let (x, y) = knots::<M>();
    let ts: [f64; T] = inp::arr(210);
    let (l, r) = (inp::f64(200), inp::f64(201));
    vassume!(l >= -1.0e6 && l <= 1.0e6 && r >= -1.0e6 && r <= 1.0e6);
    let mut i = 0;
    while i < T {
        vassume!(ts[i] >= -1.0e7 && ts[i] <= 1.0e7);
        if which == 0 {
            vassume!(ts[i] >= x[0] && ts[i] <= x[M - 1]);
        }
        i += 1;
    }
    let v = if checked {
        interp1d_linear(&x, &y, &ts, mode(which, l, r))
    } else {
        interp1d_linear_unchecked(&x, &y, &ts, mode(which, l, r))
    };
    vassert!(v.len() == T, "{} targets, {} results", T, v.len());
    let mut i = 0;
    while i < T {
        let alone = call(&x, &y, ts[i], which, l, r, checked);
        vassert!(v[i] == alone, "target {} of {}: {:e} in the joint call, {:e} alone", i, T, v[i], alone);
        i += 1;
    }
}
harness!(name=c16_multi_3_t2_fill, prop=C16, mode=R, kind=normal, tier=quick, unwind=6, { multi::<3, 2>(1, false) });
harness!(name=c16_multi_3_t2_extra, prop=C16, mode=R, kind=normal, tier=thorough, unwind=6, { multi::<3, 2>(2, true) });
harness!(name=c16_multi_3_t2_panic, prop=C16, mode=R, kind=normal, tier=quick, unwind=6, { multi::<3, 2>(0, true) });
harness!(name=c16_multi_2_t3_fill, prop=C16, mode=R, kind=normal, tier=thorough, unwind=6, { multi::<2, 3>(1, true) });
harness!(name=c16_multi_4_t2_extra, prop=C16, mode=R, kind=normal, tier=thorough, unwind=7, { multi::<4, 2>(2, false) });
harness!(name=c16_multi_4_t3_panic, prop=C16, mode=R, kind=normal, tier=quick, unwind=7, { multi::<4, 3>(0, false) });
harness!(name=c16_multi_4_t3_fill, prop=C16, mode=R, kind=normal, tier=thorough, unwind=7, { multi::<4, 3>(1, true) });
harness!(name=c16_multi_5_t3_extra, prop=C16, mode=R, kind=normal, tier=thorough, unwind=8, { multi::<5, 3>(2, true) });
