//! C17 Statistical transforms and combinatorics satisfy their defining identities.
use crate::rt::inp;
use crate::{harness, vassert, vassume, vclose, vle, vmustpanic};
use compute::functions::*;

// @axioms c17_logistic_: exp_pos exp_mono exp_neg exp_neglog
// @bound c17_logistic_: every real x, y (R; exp uninterpreted with positivity, monotonicity, exp(a)exp(-a)=1, exp(-ln u) u = 1)
// @claim c17_logistic_range: 0 <= logistic(x) <= 1; x <= y implies logistic(x) <= logistic(y); logistic(-x) = 1 - logistic(x)
harness!(name=c17_logistic_range, prop=C17, mode=R, kind=normal, tier=quick, unwind=3, {
    let (x, y) = (inp::f64(0), inp::f64(1));
    let (lx, ly) = (logistic(x), logistic(y));
    vassert!(lx >= 0.0 && lx <= 1.0, "logistic({:e}) = {:e} outside [0,1]", x, lx);
    if x <= y {
        vle!(lx, ly, 0.0, "logistic not monotone at {:e} <= {:e}", x, y);
    }
    vclose!(logistic(-x), 1.0 - lx, 1e-12, "logistic(-x) = 1 - logistic(x) at {:e}", x);
});
// @claim c17_logistic_logit: logistic(logit(p)) = p for p in (0,1)
harness!(name=c17_logistic_logit, prop=C17, mode=R, kind=normal, tier=quick, unwind=3, {
    let p = inp::f64(0);
    vassume!(p > 0.0 && p < 1.0);
    vclose!(logistic(logit(p)), p, 1e-9, "logistic(logit(p)) at p={:e}", p);
});
// @claim c17_logit_domain_: logit rejects p < 0 and p > 1 by a panic and accepts all of [0,1]
harness!(name=c17_logit_domain_lo, prop=C17, mode=R, kind=mustpanic, tier=quick, unwind=3, {
    let p = inp::f64(0);
    vassume!(p < 0.0);
    vmustpanic!(logit(p), "logit({:e})", p);
});
harness!(name=c17_logit_domain_hi, prop=C17, mode=R, kind=mustpanic, tier=quick, unwind=3, {
    let p = inp::f64(0);
    vassume!(p > 1.0);
    vmustpanic!(logit(p), "logit({:e})", p);
});
harness!(name=c17_logit_domain_in, prop=C17, mode=R, kind=normal, tier=quick, unwind=3, {
    let p = inp::f64(0);
    vassume!(p >= 0.0 && p <= 1.0);
    let _ = logit(p);
});

// @axioms c17_softmax_: exp_pos exp_mono exp_ratio
// @bound c17_softmax_: length N (instance), entries in [-1e4, 1e4] (the property's range); exp uninterpreted with positivity, monotonicity, ratio law; overflow obligation: every exp argument <= 709.78
// @claim c17_softmax_: entries >= 0, sum to 1, preserve order, unchanged by a common shift; no exp argument can overflow (R + obligation)
// @assume c17_softmax_: |x_i| <= 1e4, |x_i + c| <= 1e4
fn softmax_h<const N: usize>() {
    crate::rt::range_checks_on();
    let x: [f64; N] = inp::arr(0);
    let c = inp::f64(100);
    let mut xs = [0.0; N];
    let mut i = 0;
    while i < N {
        vassume!(x[i] >= -1.0e4 && x[i] <= 1.0e4);
        xs[i] = x[i] + c;
        vassume!(xs[i] >= -1.0e4 && xs[i] <= 1.0e4);
        i += 1;
    }
    let s = softmax(&x);
    let t = softmax(&xs);
    vassert!(s.len() == N && t.len() == N, "softmax length");
    let mut sum = 0.0;
    let mut i = 0;
    while i < N {
        vassert!(s[i] >= 0.0 && s[i] <= 1.0, "softmax entry {} = {:e}", i, s[i]);
        sum += s[i];
        vclose!(t[i], s[i], 1e-9, "softmax shift invariance at {}", i);
        let mut j = 0;
        while j < N {
            if x[i] <= x[j] {
                vle!(s[i], s[j], 1e-15, "softmax order {} {}", i, j);
            }
            j += 1;
        }
        i += 1;
    }
    vclose!(sum, 1.0, 1e-12 * N as f64, "softmax sums to 1");
}
harness!(name=c17_softmax_1, prop=C17, mode=R, kind=normal, tier=quick, unwind=4, { softmax_h::<1>() });
harness!(name=c17_softmax_2, prop=C17, mode=R, kind=normal, tier=quick, unwind=5, { softmax_h::<2>() });
harness!(name=c17_softmax_3, prop=C17, mode=R, kind=normal, tier=quick, unwind=6, { softmax_h::<3>() });
harness!(name=c17_softmax_4, prop=C17, mode=R, kind=normal, tier=thorough, unwind=7, { softmax_h::<4>() });

// @axioms c17_boxcox_: pow_pos
// @bound c17_boxcox_: every real x > 0 (x + shift > 0), every lambda; ln/pow uninterpreted
// @claim c17_boxcox_formula: boxcox = (x^l - 1)/l, ln x at l = 0; boxcox_shifted the same at x + shift
harness!(name=c17_boxcox_formula, prop=C17, mode=R, kind=normal, tier=quick, unwind=3, {
    let (x, l, a) = (inp::f64(0), inp::f64(1), inp::f64(2));
    vassume!(x > 1.0e-6 && x < 1.0e6 && l >= -5.0 && l <= 5.0);
    let want = if l == 0.0 { x.ln() } else { (x.powf(l) - 1.0) / l };
    vclose!(boxcox(x, l), want, 1e-9 * (1.0 + want.abs()), "boxcox({:e},{:e})", x, l);
});
// @claim c17_boxcox_shifted_: boxcox_shifted accepts exactly x + shift > 0 (no panic inside the domain, panic outside) and equals the formula at x + shift
// @assume c17_boxcox_shifted_: x + shift in (1e-6, 1e6), |shift| <= 1e6, lambda in [-5, 5]
harness!(name=c17_boxcox_shifted_domain, prop=C17, mode=R, kind=normal, tier=quick, unwind=3, {
    let (x, l, a) = (inp::f64(0), inp::f64(1), inp::f64(2));
    vassume!(a >= -1.0e6 && a <= 1.0e6 && l >= -5.0 && l <= 5.0);
    vassume!(x + a > 1.0e-6 && x + a < 1.0e6);
    let z = x + a;
    let want = if l == 0.0 { z.ln() } else { (z.powf(l) - 1.0) / l };
    vclose!(boxcox_shifted(x, l, a), want, 1e-9 * (1.0 + want.abs()), "boxcox_shifted({:e},{:e},{:e})", x, l, a);
});
harness!(name=c17_boxcox_shifted_reject, prop=C17, mode=R, kind=mustpanic, tier=quick, unwind=3, {
    let (x, l, a) = (inp::f64(0), inp::f64(1), inp::f64(2));
    vassume!(a >= -1.0e6 && a <= 1.0e6 && x >= -1.0e6 && x <= 1.0e6);
    vassume!(x + a <= 0.0);
    vmustpanic!(boxcox_shifted(x, l, a), "boxcox_shifted outside the domain");
});
harness!(name=c17_boxcox_reject, prop=C17, mode=R, kind=mustpanic, tier=quick, unwind=3, {
    let (x, l) = (inp::f64(0), inp::f64(1));
    vassume!(x <= 0.0);
    vmustpanic!(boxcox(x, l), "boxcox outside the domain");
});

// ---- binomial coefficient (bit-precise 64-bit integers)
// @cap c17_binom_: 200
// @bound c17_binom_: K concrete per instance, n symbolic in [K, 67] (thorough: up to 100 for K <= 32), C(n,K) < 2^64
// @claim c17_binom_: binom_coeff(n,K) and the mirrored binom_coeff(n,n-K) equal the exact integer C(n,K) (Pascal's-triangle row evaluated by the compiler in 128-bit arithmetic); Pascal's rule C(n,K) = C(n-1,K-1) + C(n-1,K) (B, integers)
/// row K of Pascal's triangle for n = 0..=100, evaluated by the compiler (const evaluation, 128-bit
/// additions only); 0 marks "does not fit in 64 bits" (C(n,K) >= 1 whenever n >= K).
const fn pascal_row<const K: usize>() -> [u64; 101] {
    let mut out = [0u64; 101];
    let mut row = [0u128; 34];
    row[0] = 1;
    if K == 0 {
        out[0] = 1;
    }
    let mut i = 1;
    while i <= 100 {
        let mut j = if i < 33 { i } else { 33 };
        while j >= 1 {
            row[j] = row[j] + row[j - 1];
            j -= 1;
        }
        if i >= K && row[K] <= u64::MAX as u128 {
            out[i] = row[K] as u64;
        }
        i += 1;
    }
    out
}
struct Row<const K: usize>;
impl<const K: usize> Row<K> {
    const R: [u64; 101] = pascal_row::<K>();
}
fn binom_k<const K: usize>(nmax: u64) {
    let k = K as u64;
    let n = inp::u64(0);
    vassume!(n >= k && n <= nmax);
    let want = Row::<K>::R[n as usize];
    vassume!(want != 0);
    let got = binom_coeff(n, k);
    vassert!(got == want, "binom_coeff({}, {}) = {} want {}", n, k, got, want);
    let mirror = binom_coeff(n, n - k);
    vassert!(mirror == want, "binom_coeff({}, {}) = {} want {}", n, n - k, mirror, want);
    if k >= 1 && n > k {
        let a = binom_coeff(n - 1, k - 1);
        let b = binom_coeff(n - 1, k);
        vassert!(a as u128 + b as u128 == want as u128, "Pascal: C({},{}) + C({},{}) = {} + {} != {}", n - 1, k - 1, n - 1, k, a, b, want);
    }
}
harness!(name=c17_binom_k00, prop=C17, mode=B, kind=normal, tier=quick, unwind=3, { binom_k::<0>(67) });
harness!(name=c17_binom_k01, prop=C17, mode=B, kind=normal, tier=quick, unwind=4, { binom_k::<1>(67) });
harness!(name=c17_binom_k02, prop=C17, mode=B, kind=normal, tier=thorough, unwind=5, { binom_k::<2>(67) });
harness!(name=c17_binom_k03, prop=C17, mode=B, kind=normal, tier=thorough, unwind=6, { binom_k::<3>(67) });
harness!(name=c17_binom_k04, prop=C17, mode=B, kind=normal, tier=thorough, unwind=7, { binom_k::<4>(67) });
harness!(name=c17_binom_k05, prop=C17, mode=B, kind=normal, tier=thorough, unwind=8, { binom_k::<5>(67) });
harness!(name=c17_binom_k06, prop=C17, mode=B, kind=normal, tier=thorough, unwind=9, { binom_k::<6>(67) });
harness!(name=c17_binom_k07, prop=C17, mode=B, kind=normal, tier=thorough, unwind=10, { binom_k::<7>(67) });
harness!(name=c17_binom_k08, prop=C17, mode=B, kind=normal, tier=thorough, unwind=11, { binom_k::<8>(67) });
harness!(name=c17_binom_k09, prop=C17, mode=B, kind=normal, tier=thorough, unwind=12, { binom_k::<9>(67) });
harness!(name=c17_binom_k10, prop=C17, mode=B, kind=normal, tier=thorough, unwind=13, { binom_k::<10>(67) });
harness!(name=c17_binom_k11, prop=C17, mode=B, kind=normal, tier=thorough, unwind=14, { binom_k::<11>(67) });
harness!(name=c17_binom_k12, prop=C17, mode=B, kind=normal, tier=thorough, unwind=15, { binom_k::<12>(67) });
harness!(name=c17_binom_k13, prop=C17, mode=B, kind=normal, tier=thorough, unwind=16, { binom_k::<13>(67) });
harness!(name=c17_binom_k14, prop=C17, mode=B, kind=normal, tier=thorough, unwind=17, { binom_k::<14>(67) });
harness!(name=c17_binom_k15, prop=C17, mode=B, kind=normal, tier=thorough, unwind=18, { binom_k::<15>(67) });
harness!(name=c17_binom_k16, prop=C17, mode=B, kind=normal, tier=thorough, unwind=19, { binom_k::<16>(67) });
harness!(name=c17_binom_k17, prop=C17, mode=B, kind=normal, tier=thorough, unwind=20, { binom_k::<17>(67) });
harness!(name=c17_binom_k18, prop=C17, mode=B, kind=normal, tier=thorough, unwind=21, { binom_k::<18>(67) });
harness!(name=c17_binom_k19, prop=C17, mode=B, kind=normal, tier=thorough, unwind=22, { binom_k::<19>(67) });
harness!(name=c17_binom_k20, prop=C17, mode=B, kind=normal, tier=thorough, unwind=23, { binom_k::<20>(67) });
harness!(name=c17_binom_k21, prop=C17, mode=B, kind=normal, tier=thorough, unwind=24, { binom_k::<21>(67) });
harness!(name=c17_binom_k22, prop=C17, mode=B, kind=normal, tier=thorough, unwind=25, { binom_k::<22>(67) });
harness!(name=c17_binom_k23, prop=C17, mode=B, kind=normal, tier=thorough, unwind=26, { binom_k::<23>(67) });
harness!(name=c17_binom_k24, prop=C17, mode=B, kind=normal, tier=thorough, unwind=27, { binom_k::<24>(67) });
harness!(name=c17_binom_k25, prop=C17, mode=B, kind=normal, tier=thorough, unwind=28, { binom_k::<25>(67) });
harness!(name=c17_binom_k26, prop=C17, mode=B, kind=normal, tier=thorough, unwind=29, { binom_k::<26>(67) });
harness!(name=c17_binom_k27, prop=C17, mode=B, kind=normal, tier=thorough, unwind=30, { binom_k::<27>(67) });
harness!(name=c17_binom_k28, prop=C17, mode=B, kind=normal, tier=thorough, unwind=31, { binom_k::<28>(67) });
harness!(name=c17_binom_k29, prop=C17, mode=B, kind=normal, tier=thorough, unwind=32, { binom_k::<29>(67) });
harness!(name=c17_binom_k30, prop=C17, mode=B, kind=normal, tier=thorough, unwind=33, { binom_k::<30>(67) });
harness!(name=c17_binom_k31, prop=C17, mode=B, kind=normal, tier=thorough, unwind=34, { binom_k::<31>(67) });
harness!(name=c17_binom_k32, prop=C17, mode=B, kind=normal, tier=thorough, unwind=35, { binom_k::<32>(67) });
harness!(name=c17_binom_k33, prop=C17, mode=B, kind=normal, tier=thorough, unwind=36, { binom_k::<33>(67) });
harness!(name=c17_binom_k02_n100, prop=C17, mode=B, kind=normal, tier=thorough, unwind=5, { binom_k::<2>(100) });
harness!(name=c17_binom_k05_n100, prop=C17, mode=B, kind=normal, tier=thorough, unwind=8, { binom_k::<5>(100) });
harness!(name=c17_binom_k10_n100, prop=C17, mode=B, kind=normal, tier=thorough, unwind=13, { binom_k::<10>(100) });
harness!(name=c17_binom_k16_n100, prop=C17, mode=B, kind=normal, tier=thorough, unwind=19, { binom_k::<16>(100) });
harness!(name=c17_binom_k24_n100, prop=C17, mode=B, kind=normal, tier=thorough, unwind=27, { binom_k::<24>(100) });
harness!(name=c17_binom_k32_n100, prop=C17, mode=B, kind=normal, tier=thorough, unwind=35, { binom_k::<32>(100) });

// ---- binomial coefficient, second decomposition: n concrete per instance, k symbolic
// @bound c17_binomn_: N concrete per instance (quick: N = 0, 1, 2, 10, 67 and two more of 34, 50, 62, 64, 66, 68 by VERIF_SEED; thorough: every N in 0..=100), k symbolic in [0, N] with C(N,k) < 2^64
// @claim c17_binomn_: for every k in [0, N]: binom_coeff(N,k) equals the exact integer C(N,k) (full Pascal triangle evaluated by the compiler in 128-bit arithmetic). Symmetry and Pascal's rule are consequences of exactness over all k in [0, N] and all instances N, N-1 (the exact integers satisfy them); the K-concrete instances assert them directly (B, integers; the loop's trip count min(k, N-k) is the symbolic quantity)
// @cap c17_binomn_: 300
// @weight c17_binomn_: 4
// @portfolio c17_binomn_: 1
const fn pascal_full() -> [[u64; 101]; 101] {
    let mut out = [[0u64; 101]; 101];
    let mut row = [0u128; 102];
    row[0] = 1;
    let mut n = 0;
    while n <= 100 {
        let mut k = 0;
        while k <= n {
            if row[k] <= u64::MAX as u128 {
                out[n][k] = row[k] as u64;
            }
            k += 1;
        }
        // next row, in place from the right; saturate so that 128-bit additions cannot overflow
        let mut j = n + 1;
        while j >= 1 {
            let s = row[j].saturating_add(row[j - 1]);
            row[j] = s;
            j -= 1;
        }
        n += 1;
    }
    out
}
static PASCAL: [[u64; 101]; 101] = pascal_full();
fn binom_n<const N: usize>() {
    let n = N as u64;
    let k = inp::u64(0);
    vassume!(k <= n);
    let want = PASCAL[N][k as usize];
    vassume!(want != 0);
    let got = binom_coeff(n, k);
    vassert!(got == want, "binom_coeff({}, {}) = {} want {}", n, k, got, want);
}
harness!(name=c17_binomn_000, prop=C17, mode=B, kind=normal, tier=quick, unwind=3, { binom_n::<0>() });
harness!(name=c17_binomn_001, prop=C17, mode=B, kind=normal, tier=quick, unwind=3, { binom_n::<1>() });
harness!(name=c17_binomn_002, prop=C17, mode=B, kind=normal, tier=quick, unwind=4, { binom_n::<2>() });
harness!(name=c17_binomn_003, prop=C17, mode=B, kind=normal, tier=thorough, unwind=4, { binom_n::<3>() });
harness!(name=c17_binomn_004, prop=C17, mode=B, kind=normal, tier=thorough, unwind=5, { binom_n::<4>() });
harness!(name=c17_binomn_005, prop=C17, mode=B, kind=normal, tier=thorough, unwind=5, { binom_n::<5>() });
harness!(name=c17_binomn_006, prop=C17, mode=B, kind=normal, tier=thorough, unwind=6, { binom_n::<6>() });
harness!(name=c17_binomn_007, prop=C17, mode=B, kind=normal, tier=thorough, unwind=6, { binom_n::<7>() });
harness!(name=c17_binomn_008, prop=C17, mode=B, kind=normal, tier=thorough, unwind=7, { binom_n::<8>() });
harness!(name=c17_binomn_009, prop=C17, mode=B, kind=normal, tier=thorough, unwind=7, { binom_n::<9>() });
harness!(name=c17_binomn_010, prop=C17, mode=B, kind=normal, tier=quick, unwind=8, { binom_n::<10>() });
harness!(name=c17_binomn_011, prop=C17, mode=B, kind=normal, tier=thorough, unwind=8, { binom_n::<11>() });
harness!(name=c17_binomn_012, prop=C17, mode=B, kind=normal, tier=thorough, unwind=9, { binom_n::<12>() });
harness!(name=c17_binomn_013, prop=C17, mode=B, kind=normal, tier=thorough, unwind=9, { binom_n::<13>() });
harness!(name=c17_binomn_014, prop=C17, mode=B, kind=normal, tier=thorough, unwind=10, { binom_n::<14>() });
harness!(name=c17_binomn_015, prop=C17, mode=B, kind=normal, tier=thorough, unwind=10, { binom_n::<15>() });
harness!(name=c17_binomn_016, prop=C17, mode=B, kind=normal, tier=thorough, unwind=11, { binom_n::<16>() });
harness!(name=c17_binomn_017, prop=C17, mode=B, kind=normal, tier=thorough, unwind=11, { binom_n::<17>() });
harness!(name=c17_binomn_018, prop=C17, mode=B, kind=normal, tier=thorough, unwind=12, { binom_n::<18>() });
harness!(name=c17_binomn_019, prop=C17, mode=B, kind=normal, tier=thorough, unwind=12, { binom_n::<19>() });
harness!(name=c17_binomn_020, prop=C17, mode=B, kind=normal, tier=thorough, unwind=13, { binom_n::<20>() });
harness!(name=c17_binomn_021, prop=C17, mode=B, kind=normal, tier=thorough, unwind=13, { binom_n::<21>() });
harness!(name=c17_binomn_022, prop=C17, mode=B, kind=normal, tier=thorough, unwind=14, { binom_n::<22>() });
harness!(name=c17_binomn_023, prop=C17, mode=B, kind=normal, tier=thorough, unwind=14, { binom_n::<23>() });
harness!(name=c17_binomn_024, prop=C17, mode=B, kind=normal, tier=thorough, unwind=15, { binom_n::<24>() });
harness!(name=c17_binomn_025, prop=C17, mode=B, kind=normal, tier=thorough, unwind=15, { binom_n::<25>() });
harness!(name=c17_binomn_026, prop=C17, mode=B, kind=normal, tier=thorough, unwind=16, { binom_n::<26>() });
harness!(name=c17_binomn_027, prop=C17, mode=B, kind=normal, tier=thorough, unwind=16, { binom_n::<27>() });
harness!(name=c17_binomn_028, prop=C17, mode=B, kind=normal, tier=thorough, unwind=17, { binom_n::<28>() });
harness!(name=c17_binomn_029, prop=C17, mode=B, kind=normal, tier=thorough, unwind=17, { binom_n::<29>() });
harness!(name=c17_binomn_030, prop=C17, mode=B, kind=normal, tier=thorough, unwind=18, { binom_n::<30>() });
harness!(name=c17_binomn_031, prop=C17, mode=B, kind=normal, tier=thorough, unwind=18, { binom_n::<31>() });
harness!(name=c17_binomn_032, prop=C17, mode=B, kind=normal, tier=thorough, unwind=19, { binom_n::<32>() });
harness!(name=c17_binomn_033, prop=C17, mode=B, kind=normal, tier=thorough, unwind=19, { binom_n::<33>() });
harness!(name=c17_binomn_034, prop=C17, mode=B, kind=normal, tier=rot0, unwind=20, { binom_n::<34>() });
harness!(name=c17_binomn_035, prop=C17, mode=B, kind=normal, tier=thorough, unwind=20, { binom_n::<35>() });
harness!(name=c17_binomn_036, prop=C17, mode=B, kind=normal, tier=thorough, unwind=21, { binom_n::<36>() });
harness!(name=c17_binomn_037, prop=C17, mode=B, kind=normal, tier=thorough, unwind=21, { binom_n::<37>() });
harness!(name=c17_binomn_038, prop=C17, mode=B, kind=normal, tier=thorough, unwind=22, { binom_n::<38>() });
harness!(name=c17_binomn_039, prop=C17, mode=B, kind=normal, tier=thorough, unwind=22, { binom_n::<39>() });
harness!(name=c17_binomn_040, prop=C17, mode=B, kind=normal, tier=thorough, unwind=23, { binom_n::<40>() });
harness!(name=c17_binomn_041, prop=C17, mode=B, kind=normal, tier=thorough, unwind=23, { binom_n::<41>() });
harness!(name=c17_binomn_042, prop=C17, mode=B, kind=normal, tier=thorough, unwind=24, { binom_n::<42>() });
harness!(name=c17_binomn_043, prop=C17, mode=B, kind=normal, tier=thorough, unwind=24, { binom_n::<43>() });
harness!(name=c17_binomn_044, prop=C17, mode=B, kind=normal, tier=thorough, unwind=25, { binom_n::<44>() });
harness!(name=c17_binomn_045, prop=C17, mode=B, kind=normal, tier=thorough, unwind=25, { binom_n::<45>() });
harness!(name=c17_binomn_046, prop=C17, mode=B, kind=normal, tier=thorough, unwind=26, { binom_n::<46>() });
harness!(name=c17_binomn_047, prop=C17, mode=B, kind=normal, tier=thorough, unwind=26, { binom_n::<47>() });
harness!(name=c17_binomn_048, prop=C17, mode=B, kind=normal, tier=thorough, unwind=27, { binom_n::<48>() });
harness!(name=c17_binomn_049, prop=C17, mode=B, kind=normal, tier=thorough, unwind=27, { binom_n::<49>() });
harness!(name=c17_binomn_050, prop=C17, mode=B, kind=normal, tier=rot1, unwind=28, { binom_n::<50>() });
harness!(name=c17_binomn_051, prop=C17, mode=B, kind=normal, tier=thorough, unwind=28, { binom_n::<51>() });
harness!(name=c17_binomn_052, prop=C17, mode=B, kind=normal, tier=thorough, unwind=29, { binom_n::<52>() });
harness!(name=c17_binomn_053, prop=C17, mode=B, kind=normal, tier=thorough, unwind=29, { binom_n::<53>() });
harness!(name=c17_binomn_054, prop=C17, mode=B, kind=normal, tier=thorough, unwind=30, { binom_n::<54>() });
harness!(name=c17_binomn_055, prop=C17, mode=B, kind=normal, tier=thorough, unwind=30, { binom_n::<55>() });
harness!(name=c17_binomn_056, prop=C17, mode=B, kind=normal, tier=thorough, unwind=31, { binom_n::<56>() });
harness!(name=c17_binomn_057, prop=C17, mode=B, kind=normal, tier=thorough, unwind=31, { binom_n::<57>() });
harness!(name=c17_binomn_058, prop=C17, mode=B, kind=normal, tier=thorough, unwind=32, { binom_n::<58>() });
harness!(name=c17_binomn_059, prop=C17, mode=B, kind=normal, tier=thorough, unwind=32, { binom_n::<59>() });
harness!(name=c17_binomn_060, prop=C17, mode=B, kind=normal, tier=thorough, unwind=33, { binom_n::<60>() });
harness!(name=c17_binomn_061, prop=C17, mode=B, kind=normal, tier=thorough, unwind=33, { binom_n::<61>() });
harness!(name=c17_binomn_062, prop=C17, mode=B, kind=normal, tier=rot2, unwind=34, { binom_n::<62>() });
harness!(name=c17_binomn_063, prop=C17, mode=B, kind=normal, tier=thorough, unwind=34, { binom_n::<63>() });
harness!(name=c17_binomn_064, prop=C17, mode=B, kind=normal, tier=rot0, unwind=35, { binom_n::<64>() });
harness!(name=c17_binomn_065, prop=C17, mode=B, kind=normal, tier=thorough, unwind=35, { binom_n::<65>() });
harness!(name=c17_binomn_066, prop=C17, mode=B, kind=normal, tier=rot1, unwind=36, { binom_n::<66>() });
harness!(name=c17_binomn_067, prop=C17, mode=B, kind=normal, tier=quick, unwind=36, { binom_n::<67>() });
harness!(name=c17_binomn_068, prop=C17, mode=B, kind=normal, tier=rot2, unwind=37, { binom_n::<68>() });
harness!(name=c17_binomn_069, prop=C17, mode=B, kind=normal, tier=thorough, unwind=37, { binom_n::<69>() });
harness!(name=c17_binomn_070, prop=C17, mode=B, kind=normal, tier=thorough, unwind=38, { binom_n::<70>() });
harness!(name=c17_binomn_071, prop=C17, mode=B, kind=normal, tier=thorough, unwind=38, { binom_n::<71>() });
harness!(name=c17_binomn_072, prop=C17, mode=B, kind=normal, tier=thorough, unwind=39, { binom_n::<72>() });
harness!(name=c17_binomn_073, prop=C17, mode=B, kind=normal, tier=thorough, unwind=39, { binom_n::<73>() });
harness!(name=c17_binomn_074, prop=C17, mode=B, kind=normal, tier=thorough, unwind=40, { binom_n::<74>() });
harness!(name=c17_binomn_075, prop=C17, mode=B, kind=normal, tier=thorough, unwind=40, { binom_n::<75>() });
harness!(name=c17_binomn_076, prop=C17, mode=B, kind=normal, tier=thorough, unwind=41, { binom_n::<76>() });
harness!(name=c17_binomn_077, prop=C17, mode=B, kind=normal, tier=thorough, unwind=41, { binom_n::<77>() });
harness!(name=c17_binomn_078, prop=C17, mode=B, kind=normal, tier=thorough, unwind=42, { binom_n::<78>() });
harness!(name=c17_binomn_079, prop=C17, mode=B, kind=normal, tier=thorough, unwind=42, { binom_n::<79>() });
harness!(name=c17_binomn_080, prop=C17, mode=B, kind=normal, tier=thorough, unwind=43, { binom_n::<80>() });
harness!(name=c17_binomn_081, prop=C17, mode=B, kind=normal, tier=thorough, unwind=43, { binom_n::<81>() });
harness!(name=c17_binomn_082, prop=C17, mode=B, kind=normal, tier=thorough, unwind=44, { binom_n::<82>() });
harness!(name=c17_binomn_083, prop=C17, mode=B, kind=normal, tier=thorough, unwind=44, { binom_n::<83>() });
harness!(name=c17_binomn_084, prop=C17, mode=B, kind=normal, tier=thorough, unwind=45, { binom_n::<84>() });
harness!(name=c17_binomn_085, prop=C17, mode=B, kind=normal, tier=thorough, unwind=45, { binom_n::<85>() });
harness!(name=c17_binomn_086, prop=C17, mode=B, kind=normal, tier=thorough, unwind=46, { binom_n::<86>() });
harness!(name=c17_binomn_087, prop=C17, mode=B, kind=normal, tier=thorough, unwind=46, { binom_n::<87>() });
harness!(name=c17_binomn_088, prop=C17, mode=B, kind=normal, tier=thorough, unwind=47, { binom_n::<88>() });
harness!(name=c17_binomn_089, prop=C17, mode=B, kind=normal, tier=thorough, unwind=47, { binom_n::<89>() });
harness!(name=c17_binomn_090, prop=C17, mode=B, kind=normal, tier=thorough, unwind=48, { binom_n::<90>() });
harness!(name=c17_binomn_091, prop=C17, mode=B, kind=normal, tier=thorough, unwind=48, { binom_n::<91>() });
harness!(name=c17_binomn_092, prop=C17, mode=B, kind=normal, tier=thorough, unwind=49, { binom_n::<92>() });
harness!(name=c17_binomn_093, prop=C17, mode=B, kind=normal, tier=thorough, unwind=49, { binom_n::<93>() });
harness!(name=c17_binomn_094, prop=C17, mode=B, kind=normal, tier=thorough, unwind=50, { binom_n::<94>() });
harness!(name=c17_binomn_095, prop=C17, mode=B, kind=normal, tier=thorough, unwind=50, { binom_n::<95>() });
harness!(name=c17_binomn_096, prop=C17, mode=B, kind=normal, tier=thorough, unwind=51, { binom_n::<96>() });
harness!(name=c17_binomn_097, prop=C17, mode=B, kind=normal, tier=thorough, unwind=51, { binom_n::<97>() });
harness!(name=c17_binomn_098, prop=C17, mode=B, kind=normal, tier=thorough, unwind=52, { binom_n::<98>() });
harness!(name=c17_binomn_099, prop=C17, mode=B, kind=normal, tier=thorough, unwind=52, { binom_n::<99>() });
harness!(name=c17_binomn_100, prop=C17, mode=B, kind=normal, tier=thorough, unwind=53, { binom_n::<100>() });
