//! C20 Covariance kernels are valid positive-definite kernels, scalar and matrix form.
use crate::rt::{fabs, inp};
use crate::{harness, vassert, vassume, vclose, vle, vmustpanic};
use compute::linalg::{Matrix, Vector};
use compute::predict::*;

fn params() -> (f64, f64, f64) {
    let (var, ls, alpha) = (inp::f64(0), inp::f64(1), inp::f64(2));
    vassume!(var >= 1.0e-2 && var <= 1.0e2 && ls >= 1.0e-2 && ls <= 1.0e2 && alpha >= 1.0e-2 && alpha <= 1.0e2);
    (var, ls, alpha)
}
fn pt(k: u32) -> f64 {
    let x = inp::f64(k);
    vassume!(x >= -1.0e3 && x <= 1.0e3);
    x
}

// @axioms c20_rbf_: exp_pos exp_mono exp_zero
// @axioms c20_rq_: pow_pos pow_one pow_mono
// @bound c20_: variance, length scale, mixture parameter in [1e-2, 1e2]; points in ±1e3; exp/pow uninterpreted with positivity, value at 0 / base 1, monotonicity
// @claim c20_rbf_scalar: RBF kernel (f64 and &f64 forms): symmetric, = variance at zero distance, positive, non-increasing in |x-y|, never above the variance (R)
fn scalar<K: Kernel<f64, f64>>(k: &K, var: f64) {
    let (x, y, z) = (pt(10), pt(11), pt(12));
    let kxy = k.forward(x, y);
    vclose!(k.forward(y, x), kxy, 1e-12 * var, "symmetry");
    vclose!(k.forward(x, x), var, 1e-12 * var, "value at zero distance");
    vassert!(kxy > 0.0, "kernel value {:e} not positive", kxy);
    vle!(kxy, var, 1e-12 * var, "kernel exceeds the variance");
    // farther apart => not larger
    let (dxy, dxz) = (fabs(x - y), fabs(x - z));
    if dxy <= dxz {
        vle!(k.forward(x, z), kxy, 1e-12 * var, "not non-increasing in the distance");
    }
}
harness!(name=c20_rbf_scalar, prop=C20, mode=R, kind=normal, tier=quick, unwind=6, {
    let (var, ls, _a) = params();
    let k = RBFKernel::new(var, ls);
    scalar(&k, var);
});
harness!(name=c20_rq_scalar, prop=C20, mode=R, kind=normal, tier=quick, unwind=6, {
    let (var, ls, a) = params();
    let k = RQKernel::new(var, a, ls);
    scalar(&k, var);
});
// @claim c20_ref_: the &f64 forms equal the f64 forms
harness!(name=c20_rbf_ref, prop=C20, mode=R, kind=normal, tier=quick, unwind=6, {
    let (var, ls, _a) = params();
    let k = RBFKernel::new(var, ls);
    let (x, y) = (pt(10), pt(11));
    vclose!(<RBFKernel as Kernel<&f64, f64>>::forward(&k, &x, &y), <RBFKernel as Kernel<f64, f64>>::forward(&k, x, y), 1e-12 * var, "RBF &f64 form");
});
harness!(name=c20_rq_ref, prop=C20, mode=R, kind=normal, tier=quick, unwind=6, {
    let (var, ls, a) = params();
    let k = RQKernel::new(var, a, ls);
    let (x, y) = (pt(10), pt(11));
    vclose!(<RQKernel as Kernel<&f64, f64>>::forward(&k, &x, &y), <RQKernel as Kernel<f64, f64>>::forward(&k, x, y), 1e-12 * var, "RQ &f64 form");
});

// @claim c20_reject_: non-positive variance / length scale / mixture parameter are rejected by a panic
fn reject(which: u8) {
    let (var, ls, a) = (inp::f64(0), inp::f64(1), inp::f64(2));
    match which {
        0 => { vassume!(var <= 0.0); vmustpanic!(RBFKernel::new(var, ls), "RBF var <= 0"); }
        1 => { vassume!(var > 0.0 && ls <= 0.0); vmustpanic!(RBFKernel::new(var, ls), "RBF length scale <= 0"); }
        2 => { vassume!(var <= 0.0); vmustpanic!(RQKernel::new(var, a, ls), "RQ var <= 0"); }
        3 => { vassume!(var > 0.0 && a <= 0.0); vmustpanic!(RQKernel::new(var, a, ls), "RQ alpha <= 0"); }
        _ => { vassume!(var > 0.0 && a > 0.0 && ls <= 0.0); vmustpanic!(RQKernel::new(var, a, ls), "RQ length scale <= 0"); }
    }
}
harness!(name=c20_reject_0, prop=C20, mode=R, kind=mustpanic, tier=quick, unwind=6, { reject(0) });
harness!(name=c20_reject_1, prop=C20, mode=R, kind=mustpanic, tier=quick, unwind=6, { reject(1) });
harness!(name=c20_reject_2, prop=C20, mode=R, kind=mustpanic, tier=quick, unwind=6, { reject(2) });
harness!(name=c20_reject_3, prop=C20, mode=R, kind=mustpanic, tier=quick, unwind=6, { reject(3) });
harness!(name=c20_reject_4, prop=C20, mode=R, kind=mustpanic, tier=quick, unwind=6, { reject(4) });

// @cap c20_mat_: 120
// @bound c20_mat_: point sets of NX and NY points (instance), passed as Vector / &Vector / Matrix / &Matrix
// @claim c20_mat_: the matrix form is NX x NY and entry (i,j) equals the scalar form on (x_i, y_j) (R: x^2 + y^2 - 2xy = (x-y)^2 under the same uninterpreted exp / pow)
fn mat<const NX: usize, const NY: usize>(rq: bool, form: u8) {
    let (var, ls, a) = params();
    let xs = inp::vec(10, NX);
    let ys = inp::vec(20, NY);
    for v in xs.iter().chain(ys.iter()) {
        vassume!(*v >= -1.0e3 && *v <= 1.0e3);
    }
    let (xv, yv) = (Vector::new(xs.clone()), Vector::new(ys.clone()));
    let (xm, ym) = (Matrix::new(xs.clone(), NX as i32, 1), Matrix::new(ys.clone(), NY as i32, 1));
    let tol = 1e-9 * var;
    if rq {
        let k = RQKernel::new(var, a, ls);
        let g: Matrix = match form {
            0 => k.forward(xv, yv),
            1 => k.forward(&xv, &yv),
            2 => k.forward(xm, ym),
            _ => k.forward(&xm, &ym),
        };
        vassert!(g.nrows == NX && g.ncols == NY, "Gram matrix is {}x{}", g.nrows, g.ncols);
        let mut i = 0;
        while i < NX {
            let mut j = 0;
            while j < NY {
                let s: f64 = <RQKernel as Kernel<f64, f64>>::forward(&k, xs[i], ys[j]);
                vclose!(g.data[i * NY + j], s, tol, "RQ entry ({},{})", i, j);
                j += 1;
            }
            i += 1;
        }
    } else {
        let k = RBFKernel::new(var, ls);
        let g: Matrix = match form {
            0 => k.forward(xv, yv),
            1 => k.forward(&xv, &yv),
            2 => k.forward(xm, ym),
            _ => k.forward(&xm, &ym),
        };
        vassert!(g.nrows == NX && g.ncols == NY, "Gram matrix is {}x{}", g.nrows, g.ncols);
        let mut i = 0;
        while i < NX {
            let mut j = 0;
            while j < NY {
                let s: f64 = <RBFKernel as Kernel<f64, f64>>::forward(&k, xs[i], ys[j]);
                vclose!(g.data[i * NY + j], s, tol, "RBF entry ({},{})", i, j);
                j += 1;
            }
            i += 1;
        }
    }
}
harness!(name=c20_mat_rbf_11_v, prop=C20, mode=R, kind=normal, tier=quick, unwind=20, { mat::<1, 1>(false, 0) });
harness!(name=c20_mat_rbf_12_rv, prop=C20, mode=R, kind=normal, tier=quick, unwind=20, { mat::<1, 2>(false, 1) });
harness!(name=c20_mat_rbf_21_m, prop=C20, mode=R, kind=normal, tier=quick, unwind=20, { mat::<2, 1>(false, 2) });
harness!(name=c20_mat_rbf_22_rm, prop=C20, mode=R, kind=normal, tier=thorough, unwind=20, { mat::<2, 2>(false, 3) });
harness!(name=c20_mat_rq_11_rm, prop=C20, mode=R, kind=normal, tier=quick, unwind=20, { mat::<1, 1>(true, 3) });
harness!(name=c20_mat_rq_12_m, prop=C20, mode=R, kind=normal, tier=quick, unwind=20, { mat::<1, 2>(true, 2) });
harness!(name=c20_mat_rq_21_v, prop=C20, mode=R, kind=normal, tier=quick, unwind=20, { mat::<2, 1>(true, 0) });
harness!(name=c20_mat_rq_32_rv, prop=C20, mode=R, kind=normal, tier=thorough, unwind=20, { mat::<3, 2>(true, 1) });
// every (kernel, argument form) pair on non-square point sets (2 x 3 and 3 x 2): a transposed index or a wrong dimension
// in one of the eight `forward` implementations shows up only when NX != NY and both exceed 1
harness!(name=c20_mat_rbf_23_v, prop=C20, mode=R, kind=normal, tier=quick, unwind=20, { mat::<2, 3>(false, 0) });
harness!(name=c20_mat_rbf_32_rv, prop=C20, mode=R, kind=normal, tier=quick, unwind=20, { mat::<3, 2>(false, 1) });
harness!(name=c20_mat_rbf_23_m, prop=C20, mode=R, kind=normal, tier=quick, unwind=20, { mat::<2, 3>(false, 2) });
harness!(name=c20_mat_rbf_32_rm, prop=C20, mode=R, kind=normal, tier=quick, unwind=20, { mat::<3, 2>(false, 3) });
harness!(name=c20_mat_rq_32_v, prop=C20, mode=R, kind=normal, tier=quick, unwind=20, { mat::<3, 2>(true, 0) });
harness!(name=c20_mat_rq_23_rv, prop=C20, mode=R, kind=normal, tier=quick, unwind=20, { mat::<2, 3>(true, 1) });
harness!(name=c20_mat_rq_32_m, prop=C20, mode=R, kind=normal, tier=quick, unwind=20, { mat::<3, 2>(true, 2) });
harness!(name=c20_mat_rq_23_rm, prop=C20, mode=R, kind=normal, tier=quick, unwind=20, { mat::<2, 3>(true, 3) });
harness!(name=c20_mat_rbf_33_m, prop=C20, mode=R, kind=normal, tier=thorough, unwind=20, { mat::<3, 3>(false, 2) });
harness!(name=c20_mat_rq_33_rv, prop=C20, mode=R, kind=normal, tier=thorough, unwind=20, { mat::<3, 3>(true, 1) });
