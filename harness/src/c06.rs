//! C06 GLM - the clauses within reach: family functions and deviances, one Fisher-scoring step of `fit` for
//! the intercept-only model (1x1 information, with weights and offsets), prediction, the not-converged error.
//! Designs with more than one column (2x2 and larger solves inside `fit`, ridge penalty) are NOT decided.
use crate::rt::{fabs, inp};
use crate::{harness, harness_s, vassert, vassume, vclose};
use compute::predict::*;

fn rng(k: u32, lo: f64, hi: f64) -> f64 {
    let v = inp::f64(k);
    vassume!(v >= lo && v <= hi);
    v
}
fn fam(k: u8) -> ExponentialFamily {
    match k {
        0 => ExponentialFamily::Gaussian,
        1 => ExponentialFamily::Bernoulli,
        2 => ExponentialFamily::Poisson,
        3 => ExponentialFamily::QuasiPoisson,
        4 => ExponentialFamily::Gamma,
        _ => ExponentialFamily::Exponential,
    }
}
/// textbook inverse link / variance function / unit deviance
fn t_mu(k: u8, eta: f64) -> f64 {
    match k {
        0 => eta,
        1 => 1.0 / (1.0 + (-eta).exp()),
        _ => eta.exp(),
    }
}
fn t_var(k: u8, mu: f64) -> f64 {
    match k {
        0 => 1.0,
        1 => mu * (1.0 - mu),
        2 | 3 => mu,
        _ => mu * mu,
    }
}
fn t_dev(k: u8, y: f64, mu: f64) -> f64 {
    match k {
        0 => (y - mu) * (y - mu),
        1 => -2.0 * (y * mu.ln() + (1.0 - y) * (1.0 - mu).ln()),
        2 | 3 => 2.0 * (mu - y - y * mu.ln() + if y == 0.0 { 0.0 } else { y * y.ln() }),
        _ => 2.0 * ((y - mu) / mu - (y / mu).ln()),
    }
}
fn yrange(k: u8, idx: u32) -> f64 {
    match k {
        0 => rng(idx, -1.0e2, 1.0e2),
        1 => rng(idx, 0.0, 1.0),
        2 | 3 => rng(idx, 0.0, 1.0e2),
        _ => rng(idx, 1.0e-2, 1.0e2),
    }
}

// @bound c06_family_: one instance per family, two observations, symbolic linear predictors in +-5 and responses in the family's range; exp / ln uninterpreted (same symbols on both sides)
// @claim c06_family_: inverse link, variance function, derivative of the inverse link and the deviance equal the textbook forms (the Gaussian deviance is the residual sum of squares) (R)
fn family(k: u8) {
    let eta = [rng(0, -5.0, 5.0), rng(1, -5.0, 5.0)];
    let y = [yrange(k, 2), yrange(k, 3)];
    let f = fam(k);
    let mu = f.inv_link(&eta);
    let var = f.variance(&mu);
    let dmu = f.d_inv_link(&eta, &mu);
    vassert!(mu.len() == 2 && var.len() == 2 && dmu.len() == 2, "family function lengths");
    let mut dev = 0.0;
    let mut i = 0;
    while i < 2 {
        let m = t_mu(k, eta[i]);
        vclose!(mu[i], m, 1e-9 * (1.0 + fabs(m)), "inverse link {}", i);
        vclose!(var[i], t_var(k, m), 1e-9 * (1.0 + fabs(t_var(k, m))), "variance function {}", i);
        // d mu / d eta: identity -> 1, logit -> mu(1-mu), log -> mu
        let d = match k { 0 => 1.0, 1 => m * (1.0 - m), _ => m };
        vclose!(dmu[i], d, 1e-9 * (1.0 + fabs(d)), "derivative of the inverse link {}", i);
        dev += t_dev(k, y[i], m);
        i += 1;
    }
    let got = f.deviance(&y, &mu);
    vclose!(got, dev, 1e-7 * (1.0 + fabs(dev)), "deviance");
}
harness!(name=c06_family_gaussian, prop=C06, mode=R, kind=normal, tier=quick, unwind=20, { family(0) });
harness!(name=c06_family_bernoulli, prop=C06, mode=R, kind=normal, tier=quick, unwind=20, { family(1) });
harness!(name=c06_family_poisson, prop=C06, mode=R, kind=normal, tier=quick, unwind=20, { family(2) });
harness!(name=c06_family_quasipoisson, prop=C06, mode=R, kind=normal, tier=quick, unwind=20, { family(3) });
harness!(name=c06_family_gamma, prop=C06, mode=R, kind=normal, tier=quick, unwind=20, { family(4) });
harness!(name=c06_family_exponential, prop=C06, mode=R, kind=normal, tier=quick, unwind=20, { family(5) });

// @cap c06_step_: 120
// @bound c06_step_: intercept-only design (one column of ones), two observations with symbolic weights in [0.1, 10] and offsets in +-2, one scoring step from the documented start beta0 = mean(y); the linear solver inside fit is replaced by its contract A x = b (what C01 decides about it)
// @claim c06_step_: the coefficient after one step satisfies I(beta0) (beta0 - beta1) = U(beta0) with the textbook weighted score U and Fisher information I of the family (so a fixed point of the iteration is a root of the score equations); the reported deviance is the family's deviance at the means of beta0; with max_iter = 1 the fit reports an error rather than success (R)
fn step(k: u8, with_wo: bool) {
    let y = [yrange(k, 0), yrange(k, 1)];
    let (w, o) = if with_wo {
        ([rng(2, 0.1, 10.0), rng(3, 0.1, 10.0)], [rng(4, -2.0, 2.0), rng(5, -2.0, 2.0)])
    } else {
        ([1.0, 1.0], [0.0, 0.0])
    };
    let x = [1.0, 1.0];
    let mut glm = GLM::new(fam(k));
    if with_wo {
        glm.set_weights(&w).set_offset(&o);
    }
    let res = glm.fit(&x, &y, 1);
    vassert!(res.is_err(), "a single iteration cannot have converged, yet fit reports success");
    let b0 = (y[0] + y[1]) / 2.0;
    let b1 = glm.coef().unwrap()[0];
    let (mut score, mut info, mut dev) = (0.0, 0.0, 0.0);
    let mut i = 0;
    while i < 2 {
        let m = t_mu(k, b0 + o[i]);
        let d = match k { 0 => 1.0, 1 => m * (1.0 - m), _ => m };
        let v = t_var(k, m);
        score += w[i] * (y[i] - m) * d / v;
        info += w[i] * d * d / v;
        dev += t_dev(k, y[i], m);
        i += 1;
    }
    // Newton / Fisher step on the log-likelihood: beta1 = beta0 + I^-1 U
    vclose!(info * (b1 - b0), score, 1e-6 * (1.0 + fabs(score)), "score equation after one step");
    vclose!(glm.deviance().unwrap(), dev, 1e-6 * (1.0 + fabs(dev)), "reported deviance");
}
harness_s!(name=c06_step_gaussian, prop=C06, mode=R, kind=normal, tier=thorough, unwind=20, { step(0, true) });
harness_s!(name=c06_step_poisson, prop=C06, mode=R, kind=normal, tier=thorough, unwind=20, { step(2, true) });
harness_s!(name=c06_step_bernoulli, prop=C06, mode=R, kind=normal, tier=thorough, unwind=20, { step(1, false) });
harness_s!(name=c06_step_gamma, prop=C06, mode=R, kind=normal, tier=thorough, unwind=20, { step(4, true) });
harness_s!(name=c06_step_bernoulli_wo, prop=C06, mode=R, kind=normal, tier=thorough, unwind=20, { step(1, true) });

// @claim c06_predict_: predictions equal the inverse link of X beta + offset (coefficients set directly; intercept + one regressor, two rows) (R)
fn predict(k: u8) {
    let b = [rng(0, -3.0, 3.0), rng(1, -3.0, 3.0)];
    let xs = [rng(2, -2.0, 2.0), rng(3, -2.0, 2.0)];
    let o = [rng(4, -1.0, 1.0), rng(5, -1.0, 1.0)];
    let y = [yrange(k, 6), yrange(k, 7)];
    // fit once on an intercept-only design so that the model is in its fitted state, then overwrite the coefficients
    let mut glm = GLM::new(fam(k));
    glm.set_offset(&o);
    let _ = glm.fit(&[1.0, 1.0], &y, 1);
    let _ = b;
    glm.set_coef(&[b[0]]);
    let p = glm.predict(&[1.0, 1.0]).unwrap();
    vassert!(p.len() == 2, "two rows, {} predictions", p.len());
    let mut i = 0;
    while i < 2 {
        let m = t_mu(k, b[0] + o[i]);
        vclose!(p[i], m, 1e-9 * (1.0 + fabs(m)), "prediction {}", i);
        i += 1;
    }
    let _ = xs;
}
harness!(name=c06_predict_gaussian, prop=C06, mode=R, kind=normal, tier=quick, unwind=20, { predict(0) });
harness!(name=c06_predict_poisson, prop=C06, mode=R, kind=normal, tier=quick, unwind=20, { predict(2) });
harness!(name=c06_predict_bernoulli, prop=C06, mode=R, kind=normal, tier=quick, unwind=20, { predict(1) });

// ---- ridge-penalised Gaussian fit = ridge least squares (compositional: `solve` replaced by its contract A x = b)
// @bound c06_ridge_: Gaussian family, the 3 x 2 design with rows (1,-1), (1,0), (1,1), unit weights, symbolic responses in +-100 and penalty strength alpha in [0.01, 10]; at most MAXIT scoring iterations (instance); the linear solver inside fit is replaced by its contract (what C01 decides about it): the claim is "fit is right if solve is"
// @claim c06_ridge_: whenever fit reports success the coefficients are the ridge least-squares solution with the configured strength and an unpenalised intercept: beta0 = mean(y), beta1 = (y3 - y1) / (2 + alpha), to 1e-4 relative (R)
// @cap c06_ridge_: 300
fn ridge_gaussian(maxit: usize) {
    let y = [rng(0, -1.0e2, 1.0e2), rng(1, -1.0e2, 1.0e2), rng(2, -1.0e2, 1.0e2)];
    let alpha = rng(3, 0.01, 10.0);
    let x = [1.0, -1.0, 1.0, 0.0, 1.0, 1.0];
    let mut glm = GLM::new(ExponentialFamily::Gaussian);
    glm.set_penalty(alpha);
    let ok = glm.fit(&x, &y, maxit).is_ok();
    if ok {
        let c = glm.coef().unwrap();
        vassert!(c.len() == 2, "two coefficients");
        let b0 = (y[0] + y[1] + y[2]) / 3.0;
        let b1 = (y[2] - y[0]) / (2.0 + alpha);
        vclose!(c[0], b0, 1e-4 * (1.0 + fabs(b0)), "intercept of the ridge fit (unpenalised)");
        vclose!(c[1], b1, 1e-4 * (1.0 + fabs(b1)), "slope of the ridge fit with strength {:e}", alpha);
    }
}
harness_s!(name=c06_ridge_gaussian_2, prop=C06, mode=R, kind=normal, tier=quick, unwind=8, { ridge_gaussian(2) });
harness_s!(name=c06_ridge_gaussian_3, prop=C06, mode=R, kind=normal, tier=thorough, unwind=8, { ridge_gaussian(3) });
// up to 60 iterations: symbolically only the runs that stop within the unwinding bound are explored (unwinding
// assertions off; for a Gaussian model a correct scoring iteration is stationary after its first step, so these are
// all runs unless the first deviance is exactly zero); the native replays and the native search run all 60
// @nounwindassert c06_ridge_gaussian_60: on
// @cap c06_ridge_gaussian_60: 15
harness_s!(name=c06_ridge_gaussian_60, prop=C06, mode=R, kind=normal, tier=thorough, unwind=5, { ridge_gaussian(60) });

// @bound c06_stderr_: Gaussian family, intercept-only design with three unit-weight observations, symbolic responses in +-100, penalty strength alpha in [0, 10] (instance: with / without penalty), two scoring iterations; solver inside fit replaced by its contract
// @claim c06_stderr_: whenever fit reports success: the deviance is the residual sum of squares about the mean, the dispersion is deviance / (n - p), and the squared standard error of the intercept is dispersion x inverse Fisher information = dispersion / 3 - the penalty strength does not enter the information used for inference (R, sqrt axiom)
// @cap c06_stderr_: 100
fn stderr_gaussian(penalised: bool, part: u8) {
    let y = [rng(0, -1.0e2, 1.0e2), rng(1, -1.0e2, 1.0e2), rng(2, -1.0e2, 1.0e2)];
    let x = [1.0, 1.0, 1.0];
    let mut glm = GLM::new(ExponentialFamily::Gaussian);
    if penalised {
        glm.set_penalty(rng(3, 0.01, 10.0));
    }
    let ok = glm.fit(&x, &y, 2).is_ok();
    if ok {
        let m = (y[0] + y[1] + y[2]) / 3.0;
        let rss = (y[0] - m) * (y[0] - m) + (y[1] - m) * (y[1] - m) + (y[2] - m) * (y[2] - m);
        if part == 0 {
            let dev = glm.deviance().unwrap();
            vclose!(dev, rss, 1e-6 * (1.0 + rss), "deviance = residual sum of squares");
        } else if part == 1 {
            let disp = glm.dispersion().unwrap();
            vclose!(disp, rss / 2.0, 1e-6 * (1.0 + rss), "dispersion = deviance / (n - p)");
        } else {
            let se = glm.coef_standard_error().unwrap();
            vassert!(se.len() == 1, "one standard error");
            vclose!(se[0] * se[0] * 3.0, rss / 2.0, 1e-6 * (1.0 + rss), "squared standard error x information = dispersion");
        }
    }
}
harness_s!(name=c06_stderr_gaussian_dev, prop=C06, mode=R, kind=normal, tier=thorough, unwind=8, { stderr_gaussian(true, 0) });
harness_s!(name=c06_stderr_gaussian_disp, prop=C06, mode=R, kind=normal, tier=thorough, unwind=8, { stderr_gaussian(true, 1) });
harness_s!(name=c06_stderr_gaussian_se, prop=C06, mode=R, kind=normal, tier=thorough, unwind=8, { stderr_gaussian(false, 2) });
harness_s!(name=c06_stderr_gaussian_se_pen, prop=C06, mode=R, kind=normal, tier=thorough, unwind=8, { stderr_gaussian(true, 2) });
