//! Solver-checked harnesses for al-jshen/compute (see /verif/DESIGN.md).
#![allow(clippy::all)]
#![allow(unused_imports, unused_macros, dead_code)]
pub mod rt;
pub mod stubs;
#[cfg(not(kani))]
pub mod registry;

#[cfg(any(feature = "c01", not(kani)))]
pub mod c01;
#[cfg(any(feature = "c02", not(kani)))]
pub mod c02;
#[cfg(any(feature = "c03", not(kani)))]
pub mod c03;
#[cfg(any(feature = "c04", feature = "c13", not(kani)))]
pub mod c04;
#[cfg(any(feature = "c05", not(kani)))]
pub mod c05;
#[cfg(any(feature = "c06", not(kani)))]
pub mod c06;
#[cfg(any(feature = "c07", not(kani)))]
pub mod c07;
#[cfg(any(feature = "c08", not(kani)))]
pub mod c08;
#[cfg(any(feature = "c09", not(kani)))]
pub mod c09;
#[cfg(any(feature = "c10", not(kani)))]
pub mod c10;
#[cfg(any(feature = "c11", feature = "c01", not(kani)))]
pub mod c11;
#[cfg(any(feature = "c12", not(kani)))]
pub mod c12;
#[cfg(any(feature = "c13", not(kani)))]
pub mod c13;
#[cfg(any(feature = "c14", not(kani)))]
pub mod c14;
#[cfg(any(feature = "c15", not(kani)))]
pub mod c15;
#[cfg(any(feature = "c16", not(kani)))]
pub mod c16;
#[cfg(any(feature = "c17", not(kani)))]
pub mod c17;
#[cfg(any(feature = "c18", not(kani)))]
pub mod c18;
#[cfg(any(feature = "c19", not(kani)))]
pub mod c19;
#[cfg(any(feature = "c20", not(kani)))]
pub mod c20;
