//! C13 Autocorrelation, AR fitting and forecasting are consistent.
use crate::rt::{fabs, inp};
use crate::{harness, vassert, vassume, vclose, vle};
use compute::timeseries::*;

fn series<const N: usize>(base: u32) -> [f64; N] {
    let x: [f64; N] = inp::arr(base);
    let mut i = 0;
    while i < N {
        vassume!(x[i] >= -1.0e3 && x[i] <= 1.0e3);
        i += 1;
    }
    x
}
fn mean_of(x: &[f64]) -> f64 {
    let mut s = 0.0;
    for v in x {
        s += *v;
    }
    s / x.len() as f64
}
/// biased autocovariance estimator at lag k >= 0
fn ref_acov(x: &[f64], k: usize) -> f64 {
    let m = mean_of(x);
    let mut s = 0.0;
    let mut i = k;
    while i < x.len() {
        s += (x[i] - m) * (x[i - k] - m);
        i += 1;
    }
    s / x.len() as f64
}

// @bound c13_acf_: series length N and lag K (instance, both signs of the lag), entries in ±1e3
// @claim c13_acf_: acovf(x,k) = (1/n) sum_{i>=|k|} (x_i - m)(x_{i-|k|} - m); acf = acovf(k)/acovf(0) (stated as acf * acovf(0) = acovf(k)); both even in the lag; acf(x,0) = 1 when the variance is not 0 (R)
fn acf_h<const N: usize>(k: i32) {
    let x = series::<N>(0);
    let ka = if k < 0 { -k } else { k } as usize;
    let c0 = ref_acov(&x, 0);
    let ck = ref_acov(&x, ka);
    let tol = 1e-6 * (1.0 + c0);
    vclose!(acovf(&x, k), ck, tol, "acovf lag {}", k);
    vclose!(acovf(&x, -k), ck, tol, "acovf lag {}", -k);
    vassume!(c0 >= 1.0e-3);
    let r = acf(&x, k);
    vclose!(r * c0, ck, tol, "acf lag {} times variance", k);
    vclose!(acf(&x, -k), r, 1e-9, "acf evenness at lag {}", k);
    if k == 0 {
        vclose!(r, 1.0, 1e-9, "acf at lag 0");
    }
}
harness!(name=c13_acf_2_k0, prop=C13, mode=R, kind=normal, tier=quick, unwind=12, { acf_h::<2>(0) });
harness!(name=c13_acf_2_k1, prop=C13, mode=R, kind=normal, tier=quick, unwind=12, { acf_h::<2>(1) });
harness!(name=c13_acf_3_k0, prop=C13, mode=R, kind=normal, tier=quick, unwind=12, { acf_h::<3>(0) });
harness!(name=c13_acf_3_k1, prop=C13, mode=R, kind=normal, tier=quick, unwind=12, { acf_h::<3>(1) });
harness!(name=c13_acf_3_k2, prop=C13, mode=R, kind=normal, tier=quick, unwind=12, { acf_h::<3>(2) });
harness!(name=c13_acf_4_k1, prop=C13, mode=R, kind=normal, tier=quick, unwind=12, { acf_h::<4>(1) });
harness!(name=c13_acf_4_k3, prop=C13, mode=R, kind=normal, tier=quick, unwind=12, { acf_h::<4>(3) });
harness!(name=c13_acf_5_k2, prop=C13, mode=R, kind=normal, tier=thorough, unwind=12, { acf_h::<5>(2) });
harness!(name=c13_acf_5_k4, prop=C13, mode=R, kind=normal, tier=thorough, unwind=12, { acf_h::<5>(4) });

// @claim c13_acfbound_: |acf(x,k)| <= 1 (Cauchy-Schwarz; nonlinear inequality, small instances) (R)
fn acf_bound<const N: usize>(k: i32) {
    let x = series::<N>(0);
    vassume!(ref_acov(&x, 0) >= 1.0e-3);
    let r = acf(&x, k);
    vle!(fabs(r), 1.0, 1e-9, "|acf| <= 1 at lag {}", k);
}
harness!(name=c13_acfbound_2_k1, prop=C13, mode=R, kind=normal, tier=quick, unwind=12, { acf_bound::<2>(1) });
harness!(name=c13_acfbound_3_k1, prop=C13, mode=R, kind=normal, tier=thorough, unwind=12, { acf_bound::<3>(1) });
harness!(name=c13_acfbound_3_k2, prop=C13, mode=R, kind=normal, tier=thorough, unwind=12, { acf_bound::<3>(2) });

// @claim c13_diff_: difference is the inverse of cumulative summation: difference(cumsum(x0, d))_i = d_i and the output has one element less (R)
fn diff_h<const N: usize>() {
    let x0 = inp::f64(50);
    let d = series::<N>(0);
    let mut v = Vec::with_capacity(N + 1);
    let mut acc = x0;
    v.push(acc);
    let mut i = 0;
    while i < N {
        acc += d[i];
        v.push(acc);
        i += 1;
    }
    vassume!(x0 >= -1.0e3 && x0 <= 1.0e3);
    let out = difference(v);
    vassert!(out.len() == N, "difference length {}", out.len());
    let mut i = 0;
    while i < N && i < out.len() {
        vclose!(out[i], d[i], 1e-9, "difference element {}", i);
        i += 1;
    }
}
harness!(name=c13_diff_1, prop=C13, mode=R, kind=normal, tier=quick, unwind=12, { diff_h::<1>() });
harness!(name=c13_diff_3, prop=C13, mode=R, kind=normal, tier=quick, unwind=12, { diff_h::<3>() });
harness!(name=c13_diff_6, prop=C13, mode=R, kind=normal, tier=quick, unwind=12, { diff_h::<6>() });

// @bound c13_fit1_: AR(1) on a series of length N (instance)
// @claim c13_fit1_: intercept = series mean; the coefficient solves the Yule-Walker equation r0 * phi = r1 with r from the real acf of the centred series (R)
// @cap c13_fit1_: 150
// @cap c13_fit2_: 150
// @cap c13_acf_: 90
fn fit1<const N: usize>() {
    let x = series::<N>(0);
    vassume!(ref_acov(&x, 0) >= 1.0e-3);
    let mut ar = AR::new(1);
    ar.fit(&x);
    vclose!(ar.intercept, mean_of(&x), 1e-9, "intercept = mean");
    vassert!(ar.coeffs.len() == 1, "AR(1) has {} coefficients", ar.coeffs.len());
    let c0 = ref_acov(&x, 0);
    let c1 = ref_acov(&x, 1);
    vclose!(ar.coeffs[0] * c0, c1, 1e-6 * (1.0 + c0), "Yule-Walker AR(1)");
}
harness!(name=c13_fit1_3, prop=C13, mode=R, kind=normal, tier=quick, unwind=16, { fit1::<3>() });
harness!(name=c13_fit1_4, prop=C13, mode=R, kind=normal, tier=thorough, unwind=16, { fit1::<4>() });
// @claim c13_fit2_: AR(2): Toeplitz(r0, r1) phi = (r1, r2), coefficients stored reversed (R)
fn fit2<const N: usize>() {
    let x = series::<N>(0);
    vassume!(ref_acov(&x, 0) >= 1.0e-3);
    let c0 = ref_acov(&x, 0);
    let c1 = ref_acov(&x, 1);
    let c2 = ref_acov(&x, 2);
    // Yule-Walker system nonsingular
    let dt = c0 * c0 - c1 * c1;
    vassume!(dt >= 1.0e-3 || dt <= -1.0e-3);
    let mut ar = AR::new(2);
    ar.fit(&x);
    vassert!(ar.coeffs.len() == 2, "AR(2) has {} coefficients", ar.coeffs.len());
    let (p1, p2) = (ar.coeffs[1], ar.coeffs[0]);
    let tol = 1e-5 * (1.0 + c0);
    vclose!(c0 * p1 + c1 * p2, c1, tol, "Yule-Walker row 1");
    vclose!(c1 * p1 + c0 * p2, c2, tol, "Yule-Walker row 2");
}
harness!(name=c13_fit2_4, prop=C13, mode=R, kind=normal, tier=thorough, unwind=16, { fit2::<4>() });

// @bound c13_predict_: AR(P) with symbolic coefficients and intercept (public fields), history length P..P+1, horizon H (instance)
// @claim c13_predict_: forecasts = intercept + AR recursion on the mean-centred history; hence shifting the series and the intercept by c shifts every forecast by c (R)
fn predict_h<const P: usize, const H: usize>() {
    let coeffs = series::<P>(0);
    let mu = inp::f64(40);
    let hist = series::<3>(100);
    vassume!(mu >= -1.0e3 && mu <= 1.0e3);
    let mut ar = AR::new(P);
    ar.coeffs = coeffs.to_vec();
    ar.intercept = mu;
    let f = ar.predict(&hist, H);
    vassert!(f.len() == H, "predict returned {} forecasts for horizon {}", f.len(), H);
    // reference: centred history, coefficients are stored reversed (coeffs[P-1] multiplies the latest value)
    let mut d: Vec<f64> = Vec::with_capacity(3 + H);
    let mut i = 0;
    while i < 3 {
        d.push(hist[i] - mu);
        i += 1;
    }
    let mut h = 0;
    while h < H {
        let n = d.len();
        let mut s = 0.0;
        let mut j = 0;
        while j < P {
            s += coeffs[j] * d[n - P + j];
            j += 1;
        }
        d.push(s);
        if h < f.len() {
            vclose!(f[h], mu + s, 1e-6 * (1.0 + fabs(mu) + fabs(s)), "forecast step {}", h + 1);
        }
        h += 1;
    }
}
harness!(name=c13_predict_p1_h1, prop=C13, mode=R, kind=normal, tier=quick, unwind=12, { predict_h::<1, 1>() });
harness!(name=c13_predict_p1_h3, prop=C13, mode=R, kind=normal, tier=quick, unwind=12, { predict_h::<1, 3>() });
harness!(name=c13_predict_p2_h2, prop=C13, mode=R, kind=normal, tier=quick, unwind=12, { predict_h::<2, 2>() });
harness!(name=c13_predict_p3_h3, prop=C13, mode=R, kind=normal, tier=thorough, unwind=12, { predict_h::<3, 3>() });

// @claim c13_dot_: the dot product used by predict_one equals its definition at lengths that reach the unrolled block (order-8 models) (R; same obligation as c04_red_8/9)
harness!(name=c13_dot_8, prop=C13, mode=R, kind=normal, tier=quick, unwind=24, { crate::c04::red::<8>() });
harness!(name=c13_dot_9, prop=C13, mode=R, kind=normal, tier=quick, unwind=24, { crate::c04::red::<9>() });
// @bound c13_refit_: model order P and series length N per instance; series entries and the object's previous state (public fields coeffs, intercept) in ±1e3, series variance >= 1e-3; floating-point operations opaque (U): the obligation is that the second fit performs the same operations on the same data as a fresh one
// @claim c13_refit_: fitting an AR object that already holds arbitrary coefficients and intercept gives bit-identical coefficients and intercept to fitting a fresh object on the same data (no state carried over; one inductive step over fit histories) (U)
// @modes c13_refit_: U
fn refit<const P: usize, const N: usize>() {
    let x = series::<N>(0);
    let old = series::<P>(100);
    let i0 = inp::f64(120);
    // a non-constant series (the autocorrelations divide by its variance); bounded previous state
    vassume!(ref_acov(&x, 0) >= 1.0e-3 && i0 >= -1.0e3 && i0 <= 1.0e3);
    let mut ar = AR::new(P);
    ar.coeffs = old.to_vec();
    ar.intercept = i0;
    ar.fit(&x);
    let mut fresh = AR::new(P);
    fresh.fit(&x);
    vassert!(ar.coeffs.len() == P && fresh.coeffs.len() == P, "coefficient count after a second fit");
    let mut i = 0;
    while i < P {
        crate::vbits!(ar.coeffs[i], fresh.coeffs[i], "coefficient {} after a second fit", i);
        i += 1;
    }
    crate::vbits!(ar.intercept, fresh.intercept, "intercept after a second fit");
}
harness!(name=c13_refit_1, prop=C13, mode=U, kind=normal, tier=quick, unwind=16, { refit::<1, 3>() });
harness!(name=c13_refit_2, prop=C13, mode=U, kind=normal, tier=thorough, unwind=16, { refit::<2, 4>() });
// @cap c13_refit_: 100
