//! C07 Quadrature rules are exact on their polynomial class.
use crate::rt::{hf, inp};
use crate::{harness, vassert, vassume, vclose, vmustpanic};
use compute::integrate::*;

fn mag(a: f64, b: f64) -> f64 {
    1.0 + a.abs().max(b.abs())
}
fn powu(x: f64, d: usize) -> f64 {
    let mut r = 1.0;
    let mut i = 0;
    while i < d {
        r *= x;
        i += 1;
    }
    r
}
/// exact integral of x^d over [a,b]
fn mono_int(a: f64, b: f64, d: usize) -> f64 {
    (powu(b, d + 1) - powu(a, d + 1)) / (d as f64 + 1.0)
}

// @bound c07_trapz_affine_: N panels (instance); symbolic a, b (any order, a=b allowed), symbolic c0, c1
// @assume c07_trapz_affine_: a, b, c0, c1 in [-1000, 1000] (the property's interval range)
// @claim c07_trapz_affine_: trapz is exact on affine integrands, antisymmetric in the limits, 0 for a=b (R)
fn trapz_affine<const N: usize>() {
    let (a, b, c0, c1) = (inp::f64(0), inp::f64(1), inp::f64(2), inp::f64(3));
    vassume!(a >= -1000.0 && a <= 1000.0 && b >= -1000.0 && b <= 1000.0);
    vassume!(c0 >= -1000.0 && c0 <= 1000.0 && c1 >= -1000.0 && c1 <= 1000.0);
    let want = (b - a) * (c0 + c1 * (a + b) / 2.0);
    let tol = 1e-9 * (1.0 + c0.abs() + c1.abs()) * mag(a, b) * mag(a, b);
    let got = trapz(|x| c0 + c1 * x, a, b, N);
    vclose!(got, want, tol, "trapz affine n={}", N);
    let rev = trapz(|x| c0 + c1 * x, b, a, N);
    vclose!(rev, -got, tol, "trapz limits swapped n={}", N);
    vclose!(trapz(|x| c0 + c1 * x, a, a, N), 0.0, tol, "trapz a=b n={}", N);
}
harness!(name=c07_trapz_affine_1, prop=C07, mode=R, kind=normal, tier=quick, unwind=4, { trapz_affine::<1>() });
harness!(name=c07_trapz_affine_2, prop=C07, mode=R, kind=normal, tier=quick, unwind=5, { trapz_affine::<2>() });
harness!(name=c07_trapz_affine_3, prop=C07, mode=R, kind=normal, tier=quick, unwind=6, { trapz_affine::<3>() });
harness!(name=c07_trapz_affine_4, prop=C07, mode=R, kind=normal, tier=quick, unwind=7, { trapz_affine::<4>() });
harness!(name=c07_trapz_affine_6, prop=C07, mode=R, kind=normal, tier=quick, unwind=9, { trapz_affine::<6>() });
harness!(name=c07_trapz_affine_9, prop=C07, mode=R, kind=normal, tier=thorough, unwind=12, { trapz_affine::<9>() });
harness!(name=c07_trapz_affine_12, prop=C07, mode=R, kind=normal, tier=thorough, unwind=15, { trapz_affine::<12>() });

// @bound c07_trapz_linear_: N panels; integrands are two arbitrary (uninterpreted) functions, symbolic weights
// @claim c07_trapz_linear_: T(alpha f + beta g) = alpha T(f) + beta T(g) for any f, g; structure = composite trapezoid sum (R)
fn trapz_linear<const N: usize>() {
    let (a, b, al, be) = (inp::f64(0), inp::f64(1), inp::f64(2), inp::f64(3));
    let tf = trapz(|x| hf(0, x), a, b, N);
    let tg = trapz(|x| hf(1, x), a, b, N);
    let tc = trapz(|x| al * hf(0, x) + be * hf(1, x), a, b, N);
    let tol = 1e-8 * (1.0 + al.abs() + be.abs()) * mag(a, b) * mag(a, b) * mag(a, b) * (N as f64);
    vclose!(tc, al * tf + be * tg, tol, "trapz linearity n={}", N);
    // definition: h * (f(a)/2 + sum_{k=1}^{n-1} f(a + k h) + f(b)/2)
    let h = (b - a) / N as f64;
    let mut s = (hf(0, a) + hf(0, b)) / 2.0;
    let mut k = 1;
    while k < N {
        s += hf(0, a + k as f64 * h);
        k += 1;
    }
    vclose!(tf, h * s, tol, "trapz composite rule n={}", N);
}
harness!(name=c07_trapz_linear_1, prop=C07, mode=R, kind=normal, tier=quick, unwind=4, { trapz_linear::<1>() });
harness!(name=c07_trapz_linear_2, prop=C07, mode=R, kind=normal, tier=quick, unwind=5, { trapz_linear::<2>() });
harness!(name=c07_trapz_linear_4, prop=C07, mode=R, kind=normal, tier=quick, unwind=7, { trapz_linear::<4>() });
harness!(name=c07_trapz_linear_7, prop=C07, mode=R, kind=normal, tier=thorough, unwind=10, { trapz_linear::<7>() });

// @bound c07_romberg_: K levels (instance), eps = 0 (no early exit), monomial degree D <= 2K-1, symbolic a, b
// @assume c07_romberg_: a, b in [-1000, 1000]
// @claim c07_romberg_: romberg(f,a,b,0,K) integrates x^D exactly for D <= 2K-1; sign flips with the limits (R)
fn romberg_mono<const K: usize, const D: usize>() {
    let (a, b) = (inp::f64(0), inp::f64(1));
    vassume!(a >= -1000.0 && a <= 1000.0 && b >= -1000.0 && b <= 1000.0);
    let want = mono_int(a, b, D);
    let tol = 1e-9 * powu(mag(a, b), D + 1);
    let got = romberg(|x| powu(x, D), a, b, 0.0, K);
    vclose!(got, want, tol, "romberg K={} degree {}", K, D);
    let rev = romberg(|x| powu(x, D), b, a, 0.0, K);
    vclose!(rev, -got, tol, "romberg limits swapped K={} degree {}", K, D);
}
harness!(name=c07_romberg_k2_d0, prop=C07, mode=R, kind=normal, tier=quick, unwind=6, { romberg_mono::<2, 0>() });
harness!(name=c07_romberg_k2_d1, prop=C07, mode=R, kind=normal, tier=quick, unwind=6, { romberg_mono::<2, 1>() });
harness!(name=c07_romberg_k2_d2, prop=C07, mode=R, kind=normal, tier=quick, unwind=6, { romberg_mono::<2, 2>() });
harness!(name=c07_romberg_k2_d3, prop=C07, mode=R, kind=normal, tier=quick, unwind=6, { romberg_mono::<2, 3>() });
harness!(name=c07_romberg_k3_d3, prop=C07, mode=R, kind=normal, tier=quick, unwind=8, { romberg_mono::<3, 3>() });
harness!(name=c07_romberg_k3_d4, prop=C07, mode=R, kind=normal, tier=quick, unwind=8, { romberg_mono::<3, 4>() });
harness!(name=c07_romberg_k3_d5, prop=C07, mode=R, kind=normal, tier=thorough, unwind=8, { romberg_mono::<3, 5>() });
harness!(name=c07_romberg_k4_d6, prop=C07, mode=R, kind=normal, tier=thorough, unwind=12, { romberg_mono::<4, 6>() });
harness!(name=c07_romberg_k4_d7, prop=C07, mode=R, kind=normal, tier=thorough, unwind=12, { romberg_mono::<4, 7>() });

// @bound c07_romberg_linear_: K levels, eps = 0, arbitrary (uninterpreted) integrands
// @claim c07_romberg_linear_: romberg is linear in the integrand (R)
fn romberg_linear<const K: usize>() {
    let (a, b, al, be) = (inp::f64(0), inp::f64(1), inp::f64(2), inp::f64(3));
    let rf = romberg(|x| hf(0, x), a, b, 0.0, K);
    let rg = romberg(|x| hf(1, x), a, b, 0.0, K);
    let rc = romberg(|x| al * hf(0, x) + be * hf(1, x), a, b, 0.0, K);
    let tol = 1e-8 * (1.0 + al.abs() + be.abs()) * mag(a, b) * mag(a, b) * mag(a, b);
    vclose!(rc, al * rf + be * rg, tol, "romberg linearity K={}", K);
}
harness!(name=c07_romberg_linear_2, prop=C07, mode=R, kind=normal, tier=thorough, unwind=6, { romberg_linear::<2>() });

// @bound c07_quad5_struct: arbitrary (uninterpreted) integrand, symbolic a, b in [-1000, 1000]
// @claim c07_quad5_struct: quad5 = xr * sum_i w_i (f(xm + xr x_i) + f(xm - xr x_i)) with the ten-point Gauss-Legendre table (every node/weight equal to the literature value to 1e-15); linear in f; antisymmetric in the limits; 0 for a=b (R)
// @assume c07_quad5_struct: |a|, |b| <= 1000
const GL_X: [f64; 5] = [0.1488743389816312, 0.4333953941292472, 0.6794095682990244, 0.8650633666889845, 0.9739065285171717];
const GL_W: [f64; 5] = [0.2955242247147529, 0.2692667193099963, 0.2190863625159821, 0.1494513491505806, 0.0666713443086881];
fn quad5_struct() {
    let (a, b, al, be) = (inp::f64(0), inp::f64(1), inp::f64(2), inp::f64(3));
    vassume!(a >= -1000.0 && a <= 1000.0 && b >= -1000.0 && b <= 1000.0);
    let qf = quad5(|x| hf(0, x), a, b);
    let qg = quad5(|x| hf(1, x), a, b);
    let qc = quad5(|x| al * hf(0, x) + be * hf(1, x), a, b);
    let tol = 1e-9 * (1.0 + al.abs() + be.abs()) * mag(a, b) * mag(a, b) * mag(a, b);
    vclose!(qc, al * qf + be * qg, tol, "quad5 linearity");
    vclose!(quad5(|x| hf(0, x), b, a), -qf, tol, "quad5 limits swapped");
    vclose!(quad5(|x| hf(0, x), a, a), 0.0, tol, "quad5 a=b");
    let xm = 0.5 * (b + a);
    let xr = 0.5 * (b - a);
    let mut s = 0.0;
    let mut i = 0;
    while i < 5 {
        s += GL_W[i] * (hf(0, xm + xr * GL_X[i]) + hf(0, xm - xr * GL_X[i]));
        i += 1;
    }
    vclose!(qf, s * xr, 1e-13 * mag(a, b) * mag(a, b) * mag(a, b), "quad5 is the 10-point Gauss-Legendre sum");
}
harness!(name=c07_quad5_struct, prop=C07, mode=R, kind=normal, tier=quick, unwind=8, { quad5_struct() });

// @bound c07_quad5_moment_: monomial degree D (instance) on the reference interval [-1,1] (ground: the table itself)
// @claim c07_quad5_moment_: the rule's table integrates t^D over [-1,1] to 2/(D+1) (even D) or 0 (odd D) within 1e-15; with c07_quad5_struct (rule = affine image of this table for every a,b and every integrand) this gives exactness up to table rounding for all polynomials of degree <= 19 on every interval (R)
fn quad5_moment<const D: usize>() {
    // the end point is an input pinned by an assumption so that the evaluation is the solver's (exact
    // rational arithmetic over the code's table), not CBMC's constant folder's
    let one = inp::f64(0);
    vassume!(one == 1.0);
    let got = quad5(|x| powu(x, D), -one, one);
    let want = if D % 2 == 0 { 2.0 / (D as f64 + 1.0) } else { 0.0 };
    let diff = got - want;
    #[cfg(kani)]
    {
        crate::rt::record2(diff <= 1e-15 && diff >= -1e-15, diff <= 1e-14 && diff >= -1e-14);
    }
    #[cfg(not(kani))]
    {
        vassert!(diff.abs() <= 1e-14, "quad5 moment {}: got {:e} want {:e}", D, got, want);
    }
}
harness!(name=c07_quad5_moment_0, prop=C07, mode=R, kind=normal, tier=quick, unwind=8, { quad5_moment::<0>() });
harness!(name=c07_quad5_moment_1, prop=C07, mode=R, kind=normal, tier=quick, unwind=8, { quad5_moment::<1>() });
harness!(name=c07_quad5_moment_2, prop=C07, mode=R, kind=normal, tier=quick, unwind=8, { quad5_moment::<2>() });
harness!(name=c07_quad5_moment_3, prop=C07, mode=R, kind=normal, tier=quick, unwind=8, { quad5_moment::<3>() });
harness!(name=c07_quad5_moment_4, prop=C07, mode=R, kind=normal, tier=quick, unwind=9, { quad5_moment::<4>() });
harness!(name=c07_quad5_moment_5, prop=C07, mode=R, kind=normal, tier=quick, unwind=10, { quad5_moment::<5>() });
harness!(name=c07_quad5_moment_6, prop=C07, mode=R, kind=normal, tier=quick, unwind=11, { quad5_moment::<6>() });
harness!(name=c07_quad5_moment_7, prop=C07, mode=R, kind=normal, tier=quick, unwind=12, { quad5_moment::<7>() });
harness!(name=c07_quad5_moment_8, prop=C07, mode=R, kind=normal, tier=quick, unwind=13, { quad5_moment::<8>() });
harness!(name=c07_quad5_moment_9, prop=C07, mode=R, kind=normal, tier=quick, unwind=14, { quad5_moment::<9>() });
harness!(name=c07_quad5_moment_10, prop=C07, mode=R, kind=normal, tier=thorough, unwind=15, { quad5_moment::<10>() });
harness!(name=c07_quad5_moment_12, prop=C07, mode=R, kind=normal, tier=thorough, unwind=17, { quad5_moment::<12>() });
harness!(name=c07_quad5_moment_14, prop=C07, mode=R, kind=normal, tier=thorough, unwind=19, { quad5_moment::<14>() });
harness!(name=c07_quad5_moment_16, prop=C07, mode=R, kind=normal, tier=thorough, unwind=21, { quad5_moment::<16>() });
harness!(name=c07_quad5_moment_18, prop=C07, mode=R, kind=normal, tier=thorough, unwind=23, { quad5_moment::<18>() });
harness!(name=c07_quad5_moment_19, prop=C07, mode=R, kind=normal, tier=thorough, unwind=24, { quad5_moment::<19>() });

// @bound c07_quad5_mono_: monomial degree D in {0,1,2} (instance), symbolic a, b in [-1000, 1000] (direct, end to end)
// @claim c07_quad5_mono_: quad5 integrates x^D to within 1e-12 (1+max|a|,|b|)^(D+1) on every interval (R)
// @assume c07_quad5_mono_: |a|, |b| <= 1000
fn quad5_mono<const D: usize>() {
    let (a, b) = (inp::f64(0), inp::f64(1));
    vassume!(a >= -1000.0 && a <= 1000.0 && b >= -1000.0 && b <= 1000.0);
    let want = mono_int(a, b, D);
    let got = quad5(|x| powu(x, D), a, b);
    let ma = if a >= 0.0 { a } else { -a };
    let mb = if b >= 0.0 { b } else { -b };
    let m = powu(1.0 + if ma >= mb { ma } else { mb }, D + 1);
    let diff = got - want;
    #[cfg(kani)]
    {
        crate::rt::record2(diff <= 1e-12 * m && diff >= -1e-12 * m, diff <= 1e-10 * m && diff >= -1e-10 * m);
    }
    #[cfg(not(kani))]
    {
        vassert!(diff.abs() <= 1e-10 * m, "quad5 degree {}: got {:e} want {:e}", D, got, want);
    }
}
harness!(name=c07_quad5_mono_0, prop=C07, mode=R, kind=normal, tier=quick, unwind=8, { quad5_mono::<0>() });
harness!(name=c07_quad5_mono_1, prop=C07, mode=R, kind=normal, tier=quick, unwind=8, { quad5_mono::<1>() });
harness!(name=c07_quad5_mono_2, prop=C07, mode=R, kind=normal, tier=quick, unwind=8, { quad5_mono::<2>() });
harness!(name=c07_quad5_mono_3, prop=C07, mode=R, kind=normal, tier=thorough, unwind=8, { quad5_mono::<3>() });

// @bound c07_samples_: N samples (instance); symbolic ordinates; explicit abscissae / explicit dx / default spacing
// @claim c07_samples_: trapezoid(y, x|dx) = sum (y[i]+y[i-1])/2 * (x[i]-x[i-1]) (the integral of the piecewise-linear interpolant) (R)
fn samples<const N: usize>() {
    let y: [f64; N] = inp::arr(0);
    let x: [f64; N] = inp::arr(100);
    let dx = inp::f64(200);
    let mut ymax: f64 = 1.0;
    let mut xmax: f64 = 1.0;
    let (mut wx, mut wd, mut w1) = (0.0, 0.0, 0.0);
    let mut i = 1;
    while i < N {
        let m = (y[i] + y[i - 1]) / 2.0;
        wx += m * (x[i] - x[i - 1]);
        wd += m * dx;
        w1 += m;
        i += 1;
    }
    let mut i = 0;
    while i < N {
        ymax = ymax.max(y[i].abs());
        xmax = xmax.max(x[i].abs());
        i += 1;
    }
    let tol = 1e-9 * ymax * (xmax + dx.abs() + 1.0) * N as f64;
    vclose!(trapezoid(&y, Some(&x), None), wx, tol, "trapezoid explicit x n={}", N);
    vclose!(trapezoid(&y, None, Some(dx)), wd, tol, "trapezoid dx n={}", N);
    vclose!(trapezoid(&y, None, None), w1, tol, "trapezoid unit spacing n={}", N);
}
harness!(name=c07_samples_2, prop=C07, mode=R, kind=normal, tier=quick, unwind=5, { samples::<2>() });
harness!(name=c07_samples_3, prop=C07, mode=R, kind=normal, tier=quick, unwind=6, { samples::<3>() });
harness!(name=c07_samples_4, prop=C07, mode=R, kind=normal, tier=quick, unwind=7, { samples::<4>() });
harness!(name=c07_samples_6, prop=C07, mode=R, kind=normal, tier=thorough, unwind=9, { samples::<6>() });

// @claim c07_samples_mismatch: trapezoid panics when x and y have different lengths
harness!(name=c07_samples_mismatch, prop=C07, mode=R, kind=mustpanic, tier=quick, unwind=6, {
    let y: [f64; 3] = inp::arr(0);
    let x: [f64; 2] = inp::arr(100);
    vmustpanic!(trapezoid(&y, Some(&x), None), "length mismatch");
});

// @bound c07_romberg_eps_: 3 levels, symbolic tolerance eps in [0, 1e-3], monomial degree D <= 5, a, b in [-1000, 1000]
// @claim c07_romberg_eps_: with a positive tolerance the early exit may only return the last diagonal entry available with 3 levels, so the result is still exact for degree <= 5 (R)
// @assume c07_romberg_eps_: a, b in [-1000, 1000], 0 <= eps <= 1e-3
fn romberg_eps<const D: usize>() {
    let (a, b, eps) = (inp::f64(0), inp::f64(1), inp::f64(2));
    vassume!(a >= -1000.0 && a <= 1000.0 && b >= -1000.0 && b <= 1000.0 && eps >= 0.0 && eps <= 1.0e-3);
    let want = mono_int(a, b, D);
    let tol = 1e-9 * powu(mag(a, b), D + 1);
    vclose!(romberg(|x| powu(x, D), a, b, eps, 3), want, tol, "romberg eps>0, 3 levels, degree {}", D);
}
harness!(name=c07_romberg_eps_d2, prop=C07, mode=R, kind=normal, tier=quick, unwind=8, { romberg_eps::<2>() });
harness!(name=c07_romberg_eps_d4, prop=C07, mode=R, kind=normal, tier=quick, unwind=8, { romberg_eps::<4>() });
harness!(name=c07_romberg_eps_d5, prop=C07, mode=R, kind=normal, tier=thorough, unwind=8, { romberg_eps::<5>() });
