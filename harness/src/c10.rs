//! C10 Optimizers follow their published update rules; Levenberg-Marquardt descends.
use crate::rt::{fabs, inp};
use crate::{harness, vassert, vassume, vclose, vle};
use compute::optimize::*;

fn rng(k: u32, lo: f64, hi: f64) -> f64 {
    let v = inp::f64(k);
    vassume!(v >= lo && v <= hi);
    v
}
/// maximum relative change, as the optimizers measure convergence (approx_eq::rel_diff on each coordinate)
fn stopped(new: &[f64], old: &[f64]) -> bool {
    let mut m = f64::NAN;
    let mut i = 0;
    while i < new.len() {
        m = f64::max(m, approx_eq::rel_diff(new[i], old[i]));
        i += 1;
    }
    m < f64::EPSILON
}

// ---- objective family: f(p) = a p0^2 + b p0 + c (1-D, convex or not) and the 2-D quadratic
// a p0^2 + b p0 p1 + c p1^2 + d p0 + e p1, with symbolic coefficients; analytic gradients in the harness
fn grad1(a: f64, b: f64, p: f64) -> f64 {
    2.0 * a * p + b
}
/// gradient of the 1-D objective as the tape delivers it (the same computation the optimizers perform, so the
/// recurrences below share its terms with the code under test); its agreement with the analytic gradient
/// is its own obligation (c10_tape_grad_*)
fn tape_grad1(a: f64, b: f64, c: f64, p: f64) -> f64 {
    let tape = Tape::new();
    let v = tape.add_var(p);
    let res = v * v * a + v * b + c;
    res.grad().wrt(&[v])[0]
}
fn grad2(c: &[f64; 5], p: &[f64; 2]) -> [f64; 2] {
    [2.0 * c[0] * p[0] + c[1] * p[1] + c[3], c[1] * p[0] + 2.0 * c[2] * p[1] + c[4]]
}

// @cap c10_: 200
// @witness c10_adam_1d_: f4=0.1 f5=0.5 f6=0.5 f7=0.0001
// @witness c10_adam_2d_: f7=0.1 f8=0.5 f9=0.5 f10=0.0001
// @witness c10_adam_trig: f1=0.5 f4=0.1 f5=0.5 f6=0.5 f7=0.0001
// @witness c10_sgd_: f4=0.1 f5=0.5 f7=0.1 f8=0.5
// @bound c10_adam_: K steps (instance), 1-D / 2-D quadratic objective with symbolic coefficients in ±10, symbolic start in ±10, step size in [1e-4, 0.5], beta1, beta2 in [0.05, 0.95], epsilon in [1e-8, 1e-3]
// @claim c10_adam_: Adam::optimize returns the K-th iterate of the published recurrence (bias-corrected moments) computed with the analytic gradient, stopping early only when the parameters stopped changing; two runs of the same optimizer object agree (R)
fn adam1<const K: usize>() {
    let (a, b, c) = (rng(0, -10.0, 10.0), rng(1, -10.0, 10.0), rng(2, -10.0, 10.0));
    let p0 = rng(3, -10.0, 10.0);
    let (lr, b1, b2, eps) = (rng(4, 1.0e-4, 0.5), rng(5, 0.05, 0.95), rng(6, 0.05, 0.95), rng(7, 1.0e-8, 1.0e-3));
    let opt = Adam::new(lr, b1, b2, eps);
    let got = opt.optimize(|p, _| p[0] * p[0] * a + p[0] * b + c, &[p0], &[], K);
    vassert!(got.len() == 1, "one parameter in, {} out", got.len());
    // reference recurrence
    let (mut p, mut m, mut v) = (p0, 0.0, 0.0);
    let (mut b1t, mut b2t) = (1.0, 1.0);
    let mut t = 0;
    let mut done = false;
    while t < K && !done {
        t += 1;
        let g = tape_grad1(a, b, c, p);
        m = b1 * m + (1.0 - b1) * g;
        v = b2 * v + (1.0 - b2) * g * g;
        b1t *= b1;
        b2t *= b2;
        let mhat = m / (1.0 - b1t);
        let vhat = v / (1.0 - b2t);
        let np = p - lr * mhat / (vhat.sqrt() + eps);
        done = stopped(&[np], &[p]);
        p = np;
    }
    vclose!(got[0], p, 1e-6 * (1.0 + fabs(p)), "Adam iterate after {} steps", K);
    let again = opt.optimize(|p, _| p[0] * p[0] * a + p[0] * b + c, &[p0], &[], K);
    vclose!(again[0], got[0], 1e-12 * (1.0 + fabs(p)), "Adam is deterministic / keeps no state between runs");
}
harness!(name=c10_adam_1d_k1, prop=C10, mode=R, kind=normal, tier=thorough, unwind=44, { adam1::<1>() });
harness!(name=c10_adam_1d_k2, prop=C10, mode=R, kind=normal, tier=thorough, unwind=44, { adam1::<2>() });
harness!(name=c10_adam_1d_k3, prop=C10, mode=R, kind=normal, tier=thorough, unwind=44, { adam1::<3>() });
fn adam2<const K: usize>() {
    let c: [f64; 5] = [rng(0, -10.0, 10.0), rng(1, -10.0, 10.0), rng(2, -10.0, 10.0), rng(3, -10.0, 10.0), rng(4, -10.0, 10.0)];
    let p0 = [rng(5, -10.0, 10.0), rng(6, -10.0, 10.0)];
    let (lr, b1, b2, eps) = (rng(7, 1.0e-4, 0.5), rng(8, 0.05, 0.95), rng(9, 0.05, 0.95), rng(10, 1.0e-8, 1.0e-3));
    let opt = Adam::new(lr, b1, b2, eps);
    let got = opt.optimize(|p, _| p[0] * p[0] * c[0] + p[0] * p[1] * c[1] + p[1] * p[1] * c[2] + p[0] * c[3] + p[1] * c[4], &p0, &[], K);
    vassert!(got.len() == 2, "two parameters in, {} out", got.len());
    let (mut p, mut m, mut v) = (p0, [0.0; 2], [0.0; 2]);
    let (mut b1t, mut b2t) = (1.0, 1.0);
    let mut t = 0;
    let mut done = false;
    while t < K && !done {
        t += 1;
        let g = grad2(&c, &p);
        b1t *= b1;
        b2t *= b2;
        let mut np = p;
        let mut i = 0;
        while i < 2 {
            m[i] = b1 * m[i] + (1.0 - b1) * g[i];
            v[i] = b2 * v[i] + (1.0 - b2) * g[i] * g[i];
            np[i] = p[i] - lr * (m[i] / (1.0 - b1t)) / ((v[i] / (1.0 - b2t)).sqrt() + eps);
            i += 1;
        }
        done = stopped(&np, &p);
        p = np;
    }
    vclose!(got[0], p[0], 1e-6 * (1.0 + fabs(p[0])), "Adam 2-D iterate, coordinate 0");
    vclose!(got[1], p[1], 1e-6 * (1.0 + fabs(p[1])), "Adam 2-D iterate, coordinate 1");
}
harness!(name=c10_adam_2d_k1, prop=C10, mode=R, kind=normal, tier=thorough, unwind=44, { adam2::<1>() });
harness!(name=c10_adam_2d_k2, prop=C10, mode=R, kind=normal, tier=thorough, unwind=44, { adam2::<2>() });

// @bound c10_sgd_: K steps, 1-D / 2-D quadratic objectives, symbolic start, step size in [1e-4, 0.5], momentum in [0, 0.99]; plain (momentum 0), momentum and Nesterov variants
// @claim c10_sgd_: SGD::optimize returns the K-th iterate of u <- mu u + lr grad(p [- mu u for Nesterov]); p <- p - u, with the analytic gradient (R)
fn sgd1<const K: usize>(nesterov: bool, plain: bool) {
    let (a, b, c) = (rng(0, -10.0, 10.0), rng(1, -10.0, 10.0), rng(2, -10.0, 10.0));
    let p0 = rng(3, -10.0, 10.0);
    let lr = rng(4, 1.0e-4, 0.5);
    let mu = if plain { 0.0 } else { rng(5, 0.0, 0.99) };
    let opt = SGD::new(lr, mu, nesterov);
    let got = opt.optimize(|p, _| p[0] * p[0] * a + p[0] * b + c, &[p0], &[], K);
    vassert!(got.len() == 1, "one parameter in, {} out", got.len());
    let (mut p, mut u) = (p0, 0.0);
    let mut t = 0;
    let mut done = false;
    while t < K && !done {
        t += 1;
        let at = if nesterov { p - mu * u } else { p };
        u = mu * u + lr * grad1(a, b, at);
        let np = p - u;
        done = stopped(&[np], &[p]);
        p = np;
    }
    vclose!(got[0], p, 1e-6 * (1.0 + fabs(p)), "SGD iterate after {} steps", K);
}
harness!(name=c10_sgd_plain_k1, prop=C10, mode=R, kind=normal, tier=quick, unwind=44, { sgd1::<1>(false, true) });
harness!(name=c10_sgd_plain_k2, prop=C10, mode=R, kind=normal, tier=thorough, unwind=44, { sgd1::<2>(false, true) });
harness!(name=c10_sgd_mom_k2, prop=C10, mode=R, kind=normal, tier=thorough, unwind=44, { sgd1::<2>(false, false) });
harness!(name=c10_sgd_nest_k2, prop=C10, mode=R, kind=normal, tier=thorough, unwind=44, { sgd1::<2>(true, false) });
harness!(name=c10_sgd_mom_k3, prop=C10, mode=R, kind=normal, tier=thorough, unwind=44, { sgd1::<3>(false, false) });
harness!(name=c10_sgd_nest_k3, prop=C10, mode=R, kind=normal, tier=thorough, unwind=44, { sgd1::<3>(true, false) });
fn sgd2<const K: usize>(nesterov: bool) {
    let c: [f64; 5] = [rng(0, -10.0, 10.0), rng(1, -10.0, 10.0), rng(2, -10.0, 10.0), rng(3, -10.0, 10.0), rng(4, -10.0, 10.0)];
    let p0 = [rng(5, -10.0, 10.0), rng(6, -10.0, 10.0)];
    let (lr, mu) = (rng(7, 1.0e-4, 0.5), rng(8, 0.0, 0.99));
    let opt = SGD::new(lr, mu, nesterov);
    let got = opt.optimize(|p, _| p[0] * p[0] * c[0] + p[0] * p[1] * c[1] + p[1] * p[1] * c[2] + p[0] * c[3] + p[1] * c[4], &p0, &[], K);
    vassert!(got.len() == 2, "two parameters in, {} out", got.len());
    let (mut p, mut u) = (p0, [0.0; 2]);
    let mut t = 0;
    let mut done = false;
    while t < K && !done {
        t += 1;
        let at = if nesterov { [p[0] - mu * u[0], p[1] - mu * u[1]] } else { p };
        let g = grad2(&c, &at);
        let mut np = p;
        let mut i = 0;
        while i < 2 {
            u[i] = mu * u[i] + lr * g[i];
            np[i] = p[i] - u[i];
            i += 1;
        }
        done = stopped(&np, &p);
        p = np;
    }
    vclose!(got[0], p[0], 1e-6 * (1.0 + fabs(p[0])), "SGD 2-D iterate, coordinate 0");
    vclose!(got[1], p[1], 1e-6 * (1.0 + fabs(p[1])), "SGD 2-D iterate, coordinate 1");
}
harness!(name=c10_sgd_2d_nest_k2, prop=C10, mode=R, kind=normal, tier=thorough, unwind=44, { sgd2::<2>(true) });
harness!(name=c10_sgd_2d_mom_k2, prop=C10, mode=R, kind=normal, tier=thorough, unwind=44, { sgd2::<2>(false) });

// @axioms c10_adam_trig: sincos
// @claim c10_adam_trig: a non-polynomial objective (sin node): the gradient the tape delivers is the analytic one (one Adam step) (R, sin / cos uninterpreted)
harness!(name=c10_adam_trig, prop=C10, mode=R, kind=normal, tier=thorough, unwind=44, {
    let (a, p0) = (rng(0, -10.0, 10.0), rng(1, -3.0, 3.0));
    let (lr, b1, b2, eps) = (rng(4, 1.0e-4, 0.5), rng(5, 0.05, 0.95), rng(6, 0.05, 0.95), rng(7, 1.0e-8, 1.0e-3));
    let opt = Adam::new(lr, b1, b2, eps);
    let got = opt.optimize(|p, _| p[0].sin() * a + p[0] * p[0], &[p0], &[], 1);
    let g = a * p0.cos() + 2.0 * p0;
    let m = (1.0 - b1) * g;
    let v = (1.0 - b2) * g * g;
    let want = p0 - lr * (m / (1.0 - b1)) / ((v / (1.0 - b2)).sqrt() + eps);
    vclose!(got[0], want, 1e-6 * (1.0 + fabs(want)), "Adam step on a sin objective");
});

// @bound c10_lm_: model y = p0 + p1 x on three symbolic points, one LM step from a symbolic start
// @claim c10_lm_descent: Levenberg-Marquardt never returns parameters with a larger residual sum of squares than the start (R)
harness!(name=c10_lm_descent, prop=C10, mode=R, kind=normal, tier=thorough, unwind=16, {
    let xs = [rng(0, -3.0, 3.0), rng(1, -3.0, 3.0), rng(2, -3.0, 3.0)];
    let ys = [rng(3, -10.0, 10.0), rng(4, -10.0, 10.0), rng(5, -10.0, 10.0)];
    let p0 = [rng(6, -5.0, 5.0), rng(7, -5.0, 5.0)];
    let lm = LM::default();
    let (p, _cov) = lm.optimize(|p, d| p[0] + p[1] * d[0][0], &p0, &[&xs, &ys], 1);
    let rss = |q: &[f64]| {
        let mut s = 0.0;
        let mut i = 0;
        while i < 3 {
            let r = ys[i] - (q[0] + q[1] * xs[i]);
            s += r * r;
            i += 1;
        }
        s
    };
    vassert!(p.len() == 2, "two parameters");
    vle!(rss(&p), rss(&p0), 1e-9 * (1.0 + rss(&p0)), "LM increased the residual sum of squares");
});
harness!(name=c10_sgd_mom_k1, prop=C10, mode=R, kind=normal, tier=quick, unwind=44, { sgd1::<1>(false, false) });
harness!(name=c10_sgd_nest_k1, prop=C10, mode=R, kind=normal, tier=quick, unwind=44, { sgd1::<1>(true, false) });
harness!(name=c10_sgd_2d_nest_k1, prop=C10, mode=R, kind=normal, tier=quick, unwind=44, { sgd2::<1>(true) });

// @claim c10_tape_grad_: the reverse-mode tape returns the analytic gradient of the objective family (1-D quadratic; 2-D in c10_sgd_2d_*) (R)
harness!(name=c10_tape_grad_1d, prop=C10, mode=R, kind=normal, tier=quick, unwind=44, {
    let (a, b, c, p) = (rng(0, -10.0, 10.0), rng(1, -10.0, 10.0), rng(2, -10.0, 10.0), rng(3, -10.0, 10.0));
    vclose!(tape_grad1(a, b, c, p), grad1(a, b, p), 1e-9 * (1.0 + fabs(grad1(a, b, p))), "tape gradient of a p^2 + b p + c");
});
