//! C03 Samplers - the sub-clauses a solver can decide: closed-form (inverse-CDF) samplers map the uniform
//! draw measure-preservingly onto the target law, supports, degenerate parameters, bulk shapes, termination
//! within the explored bound. The law of the rejection samplers (acceptance-region integrals) is NOT decided.
use crate::rt::{fabs, inp};
use crate::{harness, vassert, vassume, vclose, vle};
use compute::distributions::*;

fn rng(k: u32, lo: f64, hi: f64) -> f64 {
    let v = inp::f64(k);
    vassume!(v >= lo && v <= hi);
    v
}
/// the uniform draw the next sample will consume (first draw of the stream), assumed in (0,1)
fn first_draw() -> f64 {
    alea::shim_set_cursor(0);
    let u = alea::shim_peek_f64(0);
    vassume!(u > 0.0 && u < 1.0);
    u
}

// @bound c03_icdf_: every valid parameter value in the stated range and every uniform draw u in (0,1); exp / ln / pow uninterpreted with exp(ln u) = u, (u^a)^b = u for ab = 1 instantiated
// @claim c03_icdf_: F(sample(u)) is u or 1-u for the textbook CDF F: a measure-preserving image of the uniform law is the target law, for every parameter (R)
harness!(name=c03_icdf_uniform, prop=C03, mode=R, kind=normal, tier=quick, unwind=6, {
    let (a, w) = (rng(0, -1.0e3, 1.0e3), rng(1, 1.0e-3, 1.0e3));
    let u = first_draw();
    let x = Uniform::new(a, a + w).sample();
    vassert!(x >= a && x < a + w, "Uniform draw {:e} outside [{:e}, {:e})", x, a, a + w);
    vclose!((x - a) / w, u, 1e-9, "Uniform CDF of the draw");
});
// @axioms c03_icdf_exponential: exp_log log_mono
harness!(name=c03_icdf_exponential, prop=C03, mode=R, kind=normal, tier=quick, unwind=6, {
    let l = rng(0, 1.0e-3, 1.0e3);
    let u = first_draw();
    let x = Exponential::new(l).sample();
    vassert!(x >= 0.0, "Exponential draw {:e} negative", x);
    vclose!(1.0 - (-l * x).exp(), 1.0 - u, 1e-9, "Exponential CDF of the draw");
});
// @axioms c03_icdf_gumbel: exp_log log_mono
harness!(name=c03_icdf_gumbel, prop=C03, mode=R, kind=normal, tier=quick, unwind=6, {
    let (mu, b) = (rng(0, -1.0e3, 1.0e3), rng(1, 1.0e-3, 1.0e3));
    let u = first_draw();
    let x = Gumbel::new(mu, b).sample();
    vclose!((-(-(x - mu) / b).exp()).exp(), u, 1e-9, "Gumbel CDF of the draw");
});
// @axioms c03_icdf_pareto: pow_pos pow_pow pow_mono
harness!(name=c03_icdf_pareto, prop=C03, mode=R, kind=normal, tier=quick, unwind=6, {
    let (a, m) = (rng(0, 1.0e-2, 1.0e2), rng(1, 1.0e-3, 1.0e3));
    let u = first_draw();
    let x = Pareto::new(a, m).sample();
    vassert!(x >= m - 1e-9 * m, "Pareto draw {:e} below the minimum {:e}", x, m);
    // (m/x)^a = u  <=>  1 - F(x) = u
    vclose!((m / x).powf(a), u, 1e-9, "Pareto survival function of the draw");
});
// @claim c03_bernoulli: the draw is 1 exactly when u < p and 0 otherwise; p = 0 and p = 1 are degenerate
harness!(name=c03_bernoulli, prop=C03, mode=R, kind=normal, tier=quick, unwind=6, {
    let p = rng(0, 0.0, 1.0);
    let u = first_draw();
    let x = Bernoulli::new(p).sample();
    vassert!(x == 0.0 || x == 1.0, "Bernoulli draw {:e}", x);
    vassert!((x == 1.0) == (u < p) || p == 1.0 || p == 0.0, "Bernoulli draw {:e} for u={:e}, p={:e}", x, u, p);
    vassert!(Bernoulli::new(1.0).sample() == 1.0 && Bernoulli::new(0.0).sample() == 0.0, "degenerate Bernoulli");
});
// @claim c03_duniform: the draw is an integer in [lower, upper] for every value the range sampler may return; equal bounds give that bound
harness!(name=c03_duniform, prop=C03, mode=R, kind=normal, tier=thorough, unwind=24, {
    let (a, w) = (inp::i64(0), inp::i64(1));
    vassume!(a >= -1000 && a <= 1000 && w >= 0 && w <= 5);
    alea::shim_set_cursor(0);
    let x = DiscreteUniform::new(a, a + w).sample();
    vassert!(x >= a as f64 && x <= (a + w) as f64, "DiscreteUniform draw {:e} outside [{}, {}]", x, a, a + w);
    vassert!(x == (x as i64) as f64, "DiscreteUniform draw {:e} is not an integer", x);
});
// @claim c03_uniform_degenerate: equal bounds give that value
harness!(name=c03_uniform_degenerate, prop=C03, mode=R, kind=normal, tier=quick, unwind=6, {
    let a = rng(0, -1.0e3, 1.0e3);
    let _u = first_draw();
    vclose!(Uniform::new(a, a).sample(), a, 1e-12, "Uniform with equal bounds");
});

// @claim c03_bulk_: sample_n(n) has n elements and element i is the i-th draw; sample_matrix(r, c) is r x c
fn bulk<const N: usize>() {
    let l = rng(0, 1.0e-3, 1.0e3);
    let d = Exponential::new(l);
    alea::shim_set_cursor(0);
    let v = d.sample_n(N);
    vassert!(v.len() == N, "sample_n({}) returned {} draws", N, v.len());
    vassert!(alea::shim_cursor() as usize == N, "sample_n({}) consumed {} draws", N, alea::shim_cursor());
    let mut i = 0;
    while i < N && i < v.len() {
        alea::shim_set_cursor(i as u32);
        vclose!(v[i], d.sample(), 1e-12, "element {} is the {}-th draw", i, i);
        i += 1;
    }
    if N > 0 {
        alea::shim_set_cursor(0);
        let m = d.sample_matrix(N, 2);
        vassert!(m.nrows == N && m.ncols == 2 && m.data.len() == 2 * N, "sample_matrix shape {}x{}", m.nrows, m.ncols);
    }
}
harness!(name=c03_bulk_0, prop=C03, mode=R, kind=normal, tier=quick, unwind=12, { bulk::<0>() });
harness!(name=c03_bulk_1, prop=C03, mode=R, kind=normal, tier=quick, unwind=12, { bulk::<1>() });
harness!(name=c03_bulk_3, prop=C03, mode=R, kind=normal, tier=quick, unwind=12, { bulk::<3>() });

// @bound c03_gamma_terminates_: one instance per shape regime; the sampler must be able to return within 2 passes of its rejection loops for SOME stream of draws (the harness end is reachable); the explored bound is 3 loop iterations, unwinding assertions off
// @claim c03_gamma_terminates_: sampling can terminate: for no valid shape does every stream loop forever (a non-terminating regime shows up as an unreachable harness end and a native run that exceeds its time budget)
// @nounwindassert c03_gamma_terminates_: on
// @cap c03_gamma_terminates_: 120
// @cap c03_duniform: 120
fn gamma_term(shape_case: u8) {
    let a = match shape_case {
        0 => rng(0, 0.05, 0.3),
        1 => rng(0, 0.34, 0.99),
        _ => rng(0, 1.0, 50.0),
    };
    let b = rng(1, 1.0e-2, 1.0e2);
    alea::shim_set_cursor(0);
    let x = Gamma::new(a, b).sample();
    vassert!(x > 0.0, "Gamma draw {:e} not positive", x);
}
harness!(name=c03_gamma_terminates_lt13, prop=C03, mode=R, kind=normal, tier=thorough, unwind=3, { gamma_term(0) });
harness!(name=c03_gamma_terminates_lt1, prop=C03, mode=R, kind=normal, tier=thorough, unwind=3, { gamma_term(1) });
harness!(name=c03_gamma_terminates_ge1, prop=C03, mode=R, kind=normal, tier=thorough, unwind=3, { gamma_term(2) });
