//! C01 Linear systems are solved through every entry point.
use crate::rt::{fabs, inp};
use crate::{harness, vassert, vassume, vbits, vclose, vmustpanic};
use compute::linalg::*;

fn amax(v: &[f64]) -> f64 {
    let mut s: f64 = 1.0;
    for x in v {
        s = s.max(x.abs());
    }
    s
}
fn det<const N: usize>(a: &[f64]) -> f64 {
    if N == 1 {
        a[0]
    } else if N == 2 {
        a[0] * a[3] - a[1] * a[2]
    } else {
        a[0] * (a[4] * a[8] - a[5] * a[7]) - a[1] * (a[3] * a[8] - a[5] * a[6]) + a[2] * (a[3] * a[7] - a[4] * a[6])
    }
}
/// symbolic nonsingular NxN matrix (entries in ±100, |det| >= 1e-2; off-diagonal pairs either exactly
/// equal or clearly different, so that the routing predicate's epsilon band is not entered)
///
/// `case` splits the 2x2 instances by factorisation route and pivot outcome (exhaustive over the claim's
/// domain; the solver needs the comparison outcomes fixed to finish):
///   1 not symmetric, no row swap    2 not symmetric, row swap
///   3 symmetric, positive diagonal, positive definite (Cholesky route)
///   4 symmetric, positive diagonal, indefinite (must still be solved)
///   5 symmetric, some diagonal entry <= 0, no swap     6 the same with swap        0 no assumption
fn matrix<const N: usize>(base: u32, case: u8) -> Vec<f64> {
    let mut a = inp::vec(base, N * N);
    if N == 2 && case != 0 {
        if case >= 3 {
            // symmetric by construction
            a[2] = a[1];
        }
        let sym = a[1] == a[2];
        let posdiag = a[0] > 0.0 && a[3] > 0.0;
        let swap = fabs(a[0]) < fabs(a[2]);
        let d = a[0] * a[3] - a[1] * a[2];
        match case {
            1 => vassume!(!sym && !swap),
            2 => vassume!(!sym && swap),
            3 => vassume!(posdiag && d > 0.0),
            4 => vassume!(posdiag && d < 0.0),
            5 => vassume!(!posdiag && !swap),
            _ => vassume!(!posdiag && swap),
        }
    }
    let mut i = 0;
    while i < N * N {
        vassume!(a[i] >= -100.0 && a[i] <= 100.0);
        i += 1;
    }
    let d = det::<N>(&a);
    vassume!(d >= 1.0e-2 || d <= -1.0e-2);
    let mut i = 0;
    while i < N {
        let mut j = i + 1;
        while j < N {
            let e = a[i * N + j] - a[j * N + i];
            vassume!(e == 0.0 || e >= 1.0e-6 || e <= -1.0e-6);
            j += 1;
        }
        i += 1;
    }
    a
}
/// residual A X - B for row-major X, B with K columns
fn residual<const N: usize, const K: usize>(a: &[f64], x: &[f64], b: &[f64], what: &'static str) {
    vassert!(x.len() == N * K, "{}: solution has {} entries, wanted {}", what, x.len(), N * K);
    let tol = 1e-6 * amax(a) * amax(x) + 1e-6 * amax(b);
    let mut i = 0;
    while i < N {
        let mut c = 0;
        while c < K {
            let mut s = 0.0;
            let mut j = 0;
            while j < N && j * K + c < x.len() {
                s += a[i * N + j] * x[j * K + c];
                j += 1;
            }
            vclose!(s, b[i * K + c], tol, "{}: residual ({},{})", what, i, c);
            c += 1;
        }
        i += 1;
    }
}
fn rhs(base: u32, n: usize) -> Vec<f64> {
    let b = inp::vec(base, n);
    for x in &b {
        vassume!(*x >= -100.0 && *x <= 100.0);
    }
    b
}

// @cap c01_: 150
// @cap c01_w_solve_2_c3: 60
// @cap c01_w_solve_2_c4: 60
// @bound c01_: order N in {1,2} (3 thorough) and K right-hand sides (instance); A nonsingular with |det| >= 1e-2, entries in ±100, off-diagonal pairs exactly symmetric or differing by >= 1e-6 (the routing predicate's epsilon band is outside the claim); every real B in ±100
// @claim c01_: each entry point returns X with A X = B exactly over the reals (hence finite and independent of the internal factorisation route); inverses satisfy A A^-1 = I (R, sqrt axiom on the Cholesky route)
fn slice_solve<const N: usize>(case: u8) {
    let a = matrix::<N>(0, case);
    let b = rhs(100, N);
    let x = solve(&a, &b);
    residual::<N, 1>(&a, &x, &b, "solve");
}
fn slice_solve_sys<const N: usize, const K: usize>(case: u8) {
    let a = matrix::<N>(0, case);
    let b = rhs(100, N * K);
    let x = solve_sys(&a, &b);
    residual::<N, K>(&a, &x, &b, "solve_sys");
}
fn slice_invert<const N: usize>(case: u8) {
    let a = matrix::<N>(0, case);
    let x = invert_matrix(&a);
    let mut id = vec![0.0; N * N];
    let mut i = 0;
    while i < N {
        id[i * N + i] = 1.0;
        i += 1;
    }
    vassert!(x.len() == N * N, "inverse has {} entries", x.len());
    let tol = 1e-6 * amax(&a) * amax(&x);
    let mut i = 0;
    while i < N {
        let mut c = 0;
        while c < N {
            let mut s = 0.0;
            let mut j = 0;
            while j < N && j * N + c < x.len() {
                s += a[i * N + j] * x[j * N + c];
                j += 1;
            }
            vclose!(s, id[i * N + c], tol, "invert_matrix: (A A^-1)({},{})", i, c);
            c += 1;
        }
        i += 1;
    }
}
fn matrix_solve_vec<const N: usize>(case: u8) {
    let a = matrix::<N>(0, case);
    let b = rhs(100, N);
    let x = Matrix::new(a.clone(), N as i32, N as i32).solve(&Vector::new(b.clone()));
    residual::<N, 1>(&a, &x, &b, "Matrix::solve(&Vector)");
}
fn matrix_solve_mat<const N: usize, const K: usize>(case: u8) {
    let a = matrix::<N>(0, case);
    let b = rhs(100, N * K);
    let x = Matrix::new(a.clone(), N as i32, N as i32).solve(&Matrix::new(b.clone(), N as i32, K as i32));
    vassert!(x.nrows == N && x.ncols == K, "Matrix::solve(&Matrix) shape {}x{}", x.nrows, x.ncols);
    residual::<N, K>(&a, &x.data, &b, "Matrix::solve(&Matrix)");
}
fn matrix_inv<const N: usize>(case: u8) {
    let a = matrix::<N>(0, case);
    let x = Matrix::new(a.clone(), N as i32, N as i32).inv();
    vassert!(x.nrows == N && x.ncols == N, "Matrix::inv shape");
    let mut id = vec![0.0; N * N];
    let mut i = 0;
    while i < N {
        id[i * N + i] = 1.0;
        i += 1;
    }
    residual::<N, N>(&a, &x.data, &id, "Matrix::inv");
}

// ---------------------------------------------------------------------------------------------------
// Composition for orders >= 2 (the monolithic residual query does not finish in the solver: measured,
// 600 s cap, even with the pivot outcome fixed). The claim A X = B is assembled from
//   (w) wiring, below: every entry point returns exactly what lu_solve(lu(A)) returns - or
//       cholesky_solve(cholesky(A)) when A is symmetric positive definite - column by column, in the
//       right layout; which route applies is decided by the harness from the definition (symmetric and
//       leading minors positive), not from the code's predicate;
//   (f) the factorisation obligations of C11, re-run here: P A = L U with L unit lower / U upper for every
//       pivot outcome (c01_f_lu_*), L L^T = A (c01_f_chol_*), lu_solve solves L U x = P b for any packed
//       factor and permutation (c01_f_lusolve_*), cholesky_solve solves L L^T z = b (c01_f_tri_*).
// (w) + (f) give A X = B for every admitted A, B over the reals.
// @claim c01_w_: wiring of the entry point: result = triangular solves of the factorisation the definition calls for, per column (R; both sides are the same code on the same inputs, so this is a data-flow check)
fn spd<const N: usize>(a: &[f64]) -> bool {
    let mut sym = true;
    let mut i = 0;
    while i < N {
        let mut j = i + 1;
        while j < N {
            if a[i * N + j] != a[j * N + i] {
                sym = false;
            }
            j += 1;
        }
        i += 1;
    }
    if !sym {
        return false;
    }
    if N == 1 {
        a[0] > 0.0
    } else if N == 2 {
        a[0] > 0.0 && a[0] * a[3] - a[1] * a[2] > 0.0
    } else {
        a[0] > 0.0 && a[0] * a[4] - a[1] * a[3] > 0.0 && det::<3>(a) > 0.0
    }
}
/// reference column solve through the documented factorisations
fn ref_col<const N: usize>(a: &[f64], col: &[f64], slice_api: bool) -> Vec<f64> {
    if slice_api && spd::<N>(a) {
        cholesky_solve(&cholesky(a), col)
    } else {
        let (f, p) = lu(a);
        lu_solve(&f, &p, col)
    }
}
fn wiring<const N: usize, const K: usize>(which: u8, case: u8) {
    let a = matrix::<N>(0, case);
    let b = if which == 2 || which == 5 {
        // inverse: right-hand side is the identity
        let mut id = vec![0.0; N * N];
        let mut i = 0;
        while i < N {
            id[i * N + i] = 1.0;
            i += 1;
        }
        id
    } else {
        rhs(100, N * K)
    };
    let kk = if which == 2 || which == 5 { N } else { K };
    let am = Matrix::new(a.clone(), N as i32, N as i32);
    let (x, slice_api): (Vec<f64>, bool) = match which {
        0 => (solve(&a, &b), true),
        1 => (solve_sys(&a, &b), true),
        2 => (invert_matrix(&a), true),
        3 => (am.solve(&Vector::new(b.clone())).v, false),
        4 => (am.solve(&Matrix::new(b.clone(), N as i32, kk as i32)).data.v, false),
        _ => (am.inv().data.v, false),
    };
    vassert!(x.len() == N * kk, "solution has {} entries, wanted {}", x.len(), N * kk);
    let tol = 1e-7 * (1.0 + amax(&x));
    let mut c = 0;
    while c < kk {
        let mut col = vec![0.0; N];
        let mut i = 0;
        while i < N {
            col[i] = b[i * kk + c];
            i += 1;
        }
        let want = ref_col::<N>(&a, &col, slice_api);
        let mut i = 0;
        while i < N && i * kk + c < x.len() {
            vclose!(x[i * kk + c], want[i], tol, "entry ({},{}) of the solution", i, c);
            i += 1;
        }
        c += 1;
    }
}

// @bound c01_wu_: order 2 (3 thorough), K right-hand sides; every f64 matrix and right-hand side (float operations uninterpreted: any values); slice API: A not symmetric (the off-diagonal test of the routing predicate, stated with the code's own expression)
// @claim c01_wu_: data-flow wiring decided with uninterpreted floats: the entry point's result is bit-identical to lu_solve(lu(A), column) per column in the right layout (U). Symmetric inputs of the slice API (Cholesky route / fallback) are the c01_w_*_c3.. obligations (R).
fn wiring_u<const N: usize, const K: usize>(which: u8) {
    let a = inp::vec(0, N * N);
    if which <= 2 {
        // not symmetric, exactly as is_symmetric tests it (first off-diagonal pair)
        vassume!((a[1] - a[N]).abs() > f64::EPSILON);
    }
    let kk = if which == 2 || which == 5 { N } else { K };
    let b = if which == 2 || which == 5 {
        let mut id = vec![0.0; N * N];
        let mut i = 0;
        while i < N {
            id[i * N + i] = 1.0;
            i += 1;
        }
        id
    } else {
        inp::vec(100, N * K)
    };
    let am = Matrix::new(a.clone(), N as i32, N as i32);
    let x: Vec<f64> = match which {
        0 => solve(&a, &b),
        1 => solve_sys(&a, &b),
        2 => invert_matrix(&a),
        3 => am.solve(&Vector::new(b.clone())).v,
        4 => am.solve(&Matrix::new(b.clone(), N as i32, kk as i32)).data.v,
        _ => am.inv().data.v,
    };
    vassert!(x.len() == N * kk, "solution has {} entries, wanted {}", x.len(), N * kk);
    let (f, p) = lu(&a);
    let mut c = 0;
    while c < kk {
        let mut col = vec![0.0; N];
        let mut i = 0;
        while i < N {
            col[i] = b[i * kk + c];
            i += 1;
        }
        let want = lu_solve(&f, &p, &col);
        let mut i = 0;
        while i < N && i * kk + c < x.len() {
            vbits!(x[i * kk + c], want[i], "entry ({},{}) of the solution", i, c);
            i += 1;
        }
        c += 1;
    }
}
harness!(name=c01_solve_1, prop=C01, mode=R, kind=normal, tier=quick, unwind=20, { slice_solve::<1>(0) });
harness!(name=c01_solve_sys_1, prop=C01, mode=R, kind=normal, tier=quick, unwind=20, { slice_solve_sys::<1, 2>(0) });
harness!(name=c01_invert_1, prop=C01, mode=R, kind=normal, tier=quick, unwind=20, { slice_invert::<1>(0) });
harness!(name=c01_msolve_vec_1, prop=C01, mode=R, kind=normal, tier=quick, unwind=20, { matrix_solve_vec::<1>(0) });
harness!(name=c01_msolve_mat_1, prop=C01, mode=R, kind=normal, tier=quick, unwind=20, { matrix_solve_mat::<1, 2>(0) });
harness!(name=c01_minv_1, prop=C01, mode=R, kind=normal, tier=quick, unwind=20, { matrix_inv::<1>(0) });
harness!(name=c01_solve_2_c1, prop=C01, mode=R, kind=normal, tier=thorough, unwind=20, { slice_solve::<2>(1) });
harness!(name=c01_solve_2_c3, prop=C01, mode=R, kind=normal, tier=thorough, unwind=20, { slice_solve::<2>(3) });
harness!(name=c01_msolve_vec_2_c2, prop=C01, mode=R, kind=normal, tier=thorough, unwind=20, { matrix_solve_vec::<2>(2) });
harness!(name=c01_wu_solve_2, prop=C01, mode=U, kind=normal, tier=quick, unwind=20, { wiring_u::<2, 1>(0) });
harness!(name=c01_wu_solve_3, prop=C01, mode=U, kind=normal, tier=thorough, unwind=20, { wiring_u::<3, 1>(0) });
harness!(name=c01_wu_solve_sys_2, prop=C01, mode=U, kind=normal, tier=quick, unwind=20, { wiring_u::<2, 2>(1) });
harness!(name=c01_wu_solve_sys_3, prop=C01, mode=U, kind=normal, tier=thorough, unwind=20, { wiring_u::<3, 2>(1) });
harness!(name=c01_wu_invert_2, prop=C01, mode=U, kind=normal, tier=quick, unwind=20, { wiring_u::<2, 1>(2) });
harness!(name=c01_wu_invert_3, prop=C01, mode=U, kind=normal, tier=thorough, unwind=20, { wiring_u::<3, 1>(2) });
harness!(name=c01_wu_msolve_vec_2, prop=C01, mode=U, kind=normal, tier=quick, unwind=20, { wiring_u::<2, 1>(3) });
harness!(name=c01_wu_msolve_vec_3, prop=C01, mode=U, kind=normal, tier=thorough, unwind=20, { wiring_u::<3, 1>(3) });
harness!(name=c01_wu_msolve_mat_2, prop=C01, mode=U, kind=normal, tier=quick, unwind=20, { wiring_u::<2, 2>(4) });
harness!(name=c01_wu_msolve_mat_3, prop=C01, mode=U, kind=normal, tier=thorough, unwind=20, { wiring_u::<3, 2>(4) });
harness!(name=c01_wu_minv_2, prop=C01, mode=U, kind=normal, tier=quick, unwind=20, { wiring_u::<2, 1>(5) });
harness!(name=c01_wu_minv_3, prop=C01, mode=U, kind=normal, tier=thorough, unwind=20, { wiring_u::<3, 1>(5) });
harness!(name=c01_w_solve_2_c3, prop=C01, mode=R, kind=normal, tier=quick, unwind=20, { wiring::<2, 1>(0, 3) });
harness!(name=c01_w_solve_2_c4, prop=C01, mode=R, kind=normal, tier=quick, unwind=20, { wiring::<2, 1>(0, 4) });
harness!(name=c01_w_solve_2_c5, prop=C01, mode=R, kind=normal, tier=thorough, unwind=20, { wiring::<2, 1>(0, 5) });
harness!(name=c01_w_solve_2_c6, prop=C01, mode=R, kind=normal, tier=thorough, unwind=20, { wiring::<2, 1>(0, 6) });
harness!(name=c01_w_solve_sys_2_c3, prop=C01, mode=R, kind=normal, tier=thorough, unwind=20, { wiring::<2, 2>(1, 3) });
harness!(name=c01_w_solve_sys_2_c4, prop=C01, mode=R, kind=normal, tier=thorough, unwind=20, { wiring::<2, 2>(1, 4) });
harness!(name=c01_w_solve_sys_2_c5, prop=C01, mode=R, kind=normal, tier=thorough, unwind=20, { wiring::<2, 2>(1, 5) });
harness!(name=c01_w_solve_sys_2_c6, prop=C01, mode=R, kind=normal, tier=thorough, unwind=20, { wiring::<2, 2>(1, 6) });
harness!(name=c01_w_invert_2_c3, prop=C01, mode=R, kind=normal, tier=thorough, unwind=20, { wiring::<2, 1>(2, 3) });
harness!(name=c01_w_invert_2_c4, prop=C01, mode=R, kind=normal, tier=thorough, unwind=20, { wiring::<2, 1>(2, 4) });
harness!(name=c01_w_invert_2_c5, prop=C01, mode=R, kind=normal, tier=thorough, unwind=20, { wiring::<2, 1>(2, 5) });
harness!(name=c01_w_invert_2_c6, prop=C01, mode=R, kind=normal, tier=thorough, unwind=20, { wiring::<2, 1>(2, 6) });
harness!(name=c01_w_solve_2_c1, prop=C01, mode=R, kind=normal, tier=quick, unwind=20, { wiring::<2, 1>(0, 1) });
harness!(name=c01_w_solve_2_c2, prop=C01, mode=R, kind=normal, tier=quick, unwind=20, { wiring::<2, 1>(0, 2) });
harness!(name=c01_f_lu_2_noswap, prop=C01, mode=R, kind=normal, tier=quick, unwind=20, { crate::c11::lu_h::<2>(1) });
harness!(name=c01_f_lu_2_swap, prop=C01, mode=R, kind=normal, tier=quick, unwind=20, { crate::c11::lu_h::<2>(2) });
harness!(name=c01_f_chol_2, prop=C01, mode=R, kind=normal, tier=quick, unwind=20, { crate::c11::chol::<2>() });
harness!(name=c01_f_lusolve_2a, prop=C01, mode=R, kind=normal, tier=quick, unwind=20, { crate::c11::lusolve::<2>([0, 1]) });
harness!(name=c01_f_lusolve_2b, prop=C01, mode=R, kind=normal, tier=quick, unwind=20, { crate::c11::lusolve::<2>([1, 0]) });
harness!(name=c01_f_tri_2, prop=C01, mode=R, kind=normal, tier=quick, unwind=20, { crate::c11::tri::<2>() });
harness!(name=c01_f_lu_3_p012, prop=C01, mode=R, kind=normal, tier=thorough, unwind=20, { crate::c11::lu_h::<3>(1) });
harness!(name=c01_f_lu_3_p021, prop=C01, mode=R, kind=normal, tier=thorough, unwind=20, { crate::c11::lu_h::<3>(2) });
harness!(name=c01_f_lu_3_p102, prop=C01, mode=R, kind=normal, tier=thorough, unwind=20, { crate::c11::lu_h::<3>(3) });
harness!(name=c01_f_lu_3_p120, prop=C01, mode=R, kind=normal, tier=thorough, unwind=20, { crate::c11::lu_h::<3>(4) });
harness!(name=c01_f_lu_3_p201, prop=C01, mode=R, kind=normal, tier=thorough, unwind=20, { crate::c11::lu_h::<3>(5) });
harness!(name=c01_f_lu_3_p210, prop=C01, mode=R, kind=normal, tier=thorough, unwind=20, { crate::c11::lu_h::<3>(6) });
harness!(name=c01_f_chol_3, prop=C01, mode=R, kind=normal, tier=thorough, unwind=20, { crate::c11::chol::<3>() });
harness!(name=c01_f_tri_3, prop=C01, mode=R, kind=normal, tier=thorough, unwind=20, { crate::c11::tri::<3>() });
harness!(name=c01_f_lusolve_3a, prop=C01, mode=R, kind=normal, tier=thorough, unwind=20, { crate::c11::lusolve::<3>([2, 0, 1]) });
harness!(name=c01_f_lusolve_3b, prop=C01, mode=R, kind=normal, tier=thorough, unwind=20, { crate::c11::lusolve::<3>([1, 2, 0]) });

// @claim c01_diag_: end-to-end residual for diagonal positive-definite A (Cholesky route) with K right-hand sides, K different from 1 and from the order: exercises the multi-RHS layout conversion on the route the wiring obligations only reach in the thorough tier (R)
fn diag_sys<const N: usize, const K: usize>() {
    let mut a = vec![0.0; N * N];
    let mut i = 0;
    while i < N {
        a[i * N + i] = inp::f64(i as u32);
        vassume!(a[i * N + i] >= 0.1 && a[i * N + i] <= 100.0);
        i += 1;
    }
    let b = rhs(100, N * K);
    let x = solve_sys(&a, &b);
    residual::<N, K>(&a, &x, &b, "solve_sys, diagonal SPD");
}
harness!(name=c01_diag_2x3, prop=C01, mode=R, kind=normal, tier=thorough, unwind=20, { diag_sys::<2, 3>() });
harness!(name=c01_diag_3x2, prop=C01, mode=R, kind=normal, tier=thorough, unwind=20, { diag_sys::<3, 2>() });

// @bound c01_systwin_: order N, K right-hand sides (instance), A symmetric or general (instance), every bit pattern (floating-point arithmetic opaque, comparisons exact: U)
// @claim c01_systwin_: solve_sys(A, B) is, column by column and in the row-major N x K layout, bit-identical to solve(A, b_j) - whichever factorisation route the routing predicate selects, both take it (U). With c01_wu_solve_* / the factorisation obligations this carries A X = B over to several right-hand sides on the symmetric routes as well
// @modes c01_systwin_: U
// @cap c01_systwin_: 100
fn systwin<const N: usize, const K: usize>(symmetric: bool) {
    let mut a = inp::vec(0, N * N);
    if symmetric {
        let mut i = 0;
        while i < N {
            let mut j = 0;
            while j < i {
                a[i * N + j] = a[j * N + i];
                j += 1;
            }
            i += 1;
        }
    }
    let b = inp::vec(100, N * K);
    let x = solve_sys(&a, &b);
    vassert!(x.len() == N * K, "solve_sys returned {} entries for {} x {}", x.len(), N, K);
    let mut j = 0;
    while j < K {
        let mut bj = vec![0.0; N];
        let mut i = 0;
        while i < N {
            bj[i] = b[i * K + j];
            i += 1;
        }
        let xj = solve(&a, &bj);
        vassert!(xj.len() == N, "solve returned {} entries", xj.len());
        let mut i = 0;
        while i < N {
            crate::vbits!(x[i * K + j], xj[i], "solve_sys entry ({},{}) differs from solve on column {}", i, j, j);
            i += 1;
        }
        j += 1;
    }
}
harness!(name=c01_systwin_sym_2_3, prop=C01, mode=U, kind=normal, tier=quick, unwind=20, { systwin::<2, 3>(true) });
harness!(name=c01_systwin_sym_2_1, prop=C01, mode=U, kind=normal, tier=quick, unwind=20, { systwin::<2, 1>(true) });
harness!(name=c01_systwin_gen_2_3, prop=C01, mode=U, kind=normal, tier=thorough, unwind=20, { systwin::<2, 3>(false) });
