//! scratch debugging harnesses (not part of any property)
use crate::rt::inp;
use crate::{harness, vassert, vassume};
use compute::linalg::*;
harness!(name=c99_lu_only, prop=C99, mode=R, kind=normal, tier=quick, unwind=20, {
    let a = inp::vec(0, 4);
    let (f, p) = lu(&a);
    vassert!(f.len() == 4, "len");
});
harness!(name=c99_swap_i32, prop=C99, mode=R, kind=normal, tier=quick, unwind=20, {
    let mut v: Vec<i32> = (0..2).map(|x| x as i32).collect();
    if inp::f64(0) > 0.0 { v.swap(1, 0); }
    vassert!(v[0] + v[1] == 1, "sum");
});
harness!(name=c99_swap_f64, prop=C99, mode=R, kind=normal, tier=quick, unwind=20, {
    let mut v = inp::vec(0, 4);
    if v[0] > 0.0 { v.swap(2, 0); }
    vassert!(v.len() == 4, "len");
});
harness!(name=c99_lu_p, prop=C99, mode=R, kind=normal, tier=quick, unwind=20, {
    let a = inp::vec(0, 4);
    let (f, p) = lu(&a);
    let r = p[0] as usize;
    if r < 2 { vassert!(f.len() == 4, "len"); }
});
harness!(name=c99_collect_i32, prop=C99, mode=R, kind=normal, tier=quick, unwind=20, {
    let v: Vec<i32> = (0..2).map(|x| x as i32).collect();
    vassume!(inp::f64(0) > 0.0);
    vassert!(v[0] == 0 && v[1] == 1, "collect");
});
harness!(name=c99_swap_i32_b, prop=C99, mode=R, kind=normal, tier=quick, unwind=20, {
    let mut v: Vec<i32> = vec![0, 1];
    if inp::f64(0) > 0.0 { v.swap(1, 0); }
    vassert!(v[0] + v[1] == 1, "sum");
});
harness!(name=c99_swap_i64, prop=C99, mode=R, kind=normal, tier=quick, unwind=20, {
    let mut v: Vec<i64> = vec![0, 1];
    if inp::f64(0) > 0.0 { v.swap(1, 0); }
    vassert!(v[0] + v[1] == 1, "sum");
});
harness!(name=c99_lu2_noswap, prop=C99, mode=R, kind=normal, tier=quick, unwind=20, {
    let a = inp::vec(0, 4);
    for x in &a { vassume!(*x >= -100.0 && *x <= 100.0); }
    vassume!(crate::rt::fabs(a[0]) >= crate::rt::fabs(a[2]));
    let (f, p) = lu(&a);
    vassert!(p[0] == 0 && p[1] == 1, "pivots");
    crate::vclose!(f[0], a[0], 1e-9, "u00");
    crate::vclose!(f[2] * f[0], a[2], 1e-9, "l10*u00");
    crate::vclose!(f[2] * f[1] + f[3], a[3], 1e-9, "l10*u01+u11");
});
harness!(name=c99_lu2_swap, prop=C99, mode=R, kind=normal, tier=quick, unwind=20, {
    let a = inp::vec(0, 4);
    for x in &a { vassume!(*x >= -100.0 && *x <= 100.0); }
    vassume!(crate::rt::fabs(a[0]) < crate::rt::fabs(a[2]));
    let (f, p) = lu(&a);
    vassert!(p[0] == 1 && p[1] == 0, "pivots");
    crate::vclose!(f[0], a[2], 1e-9, "u00");
    crate::vclose!(f[2] * f[0], a[0], 1e-9, "l10*u00");
    crate::vclose!(f[2] * f[1] + f[3], a[1], 1e-9, "l10*u01+u11");
});
