//! C04 Element-wise arithmetic and maps are exact at every length and operand form.
// @bound c04_vec_: one instance per operator and length L; every f64 value incl. NaN, infinities, signed zeros (float operations uninterpreted, U)
// @claim c04_vec_: all eleven operand forms of the operator on Vector give at each position exactly op(lhs[i], rhs[i]) (operand order kept), length kept, operands unchanged
use crate::rt::inp;
use crate::{harness, vassert, vassume, vbits, vclose, vle, vmustpanic};
use compute::linalg::*;

fn same<const L: usize>(v: &[f64], orig: &[f64; L], what: &'static str) {
    vassert!(v.len() == L, "{}: length {} != {}", what, v.len(), L);
    let mut i = 0;
    while i < L {
        vbits!(v[i], orig[i], "{} changed at {}", what, i);
        i += 1;
    }
}

macro_rules! vec_forms {
    ($fname:ident, $op:tt, $opa:tt) => {
        fn $fname<const L: usize>() {
            let a0: [f64; L] = inp::arr(0);
            let b0: [f64; L] = inp::arr(100);
            let s = inp::f64(200);
            let a = Vector::new(a0.to_vec());
            let b = Vector::new(b0.to_vec());
            let mut want = [0.0f64; L];
            let mut want_vs = [0.0f64; L];
            let mut want_sv = [0.0f64; L];
            let mut i = 0;
            while i < L {
                want[i] = a0[i] $op b0[i];
                want_vs[i] = a0[i] $op s;
                want_sv[i] = s $op a0[i];
                i += 1;
            }
            // vector ∘ vector, four ownership forms
            let r = &a $op &b;
            same(&r, &want, "&a op &b");
            same(&a, &a0, "lhs after &a op &b");
            same(&b, &b0, "rhs after &a op &b");
            let r = a.clone() $op b.clone();
            same(&r, &want, "a op b");
            let r = a.clone() $op &b;
            same(&r, &want, "a op &b");
            same(&b, &b0, "rhs after a op &b");
            let r = &a $op b.clone();
            same(&r, &want, "&a op b");
            same(&a, &a0, "lhs after &a op b");
            // compound assignment
            let mut c = a.clone();
            c $opa &b;
            same(&c, &want, "a op= &b");
            same(&b, &b0, "rhs after a op= &b");
            let mut c = a.clone();
            c $opa b.clone();
            same(&c, &want, "a op= b");
            // scalar on the right / left
            let r = &a $op s;
            same(&r, &want_vs, "&a op s");
            same(&a, &a0, "lhs after &a op s");
            let r = a.clone() $op s;
            same(&r, &want_vs, "a op s");
            let r = s $op &a;
            same(&r, &want_sv, "s op &a");
            same(&a, &a0, "rhs after s op &a");
            let r = s $op a.clone();
            same(&r, &want_sv, "s op a");
            let mut c = a.clone();
            c $opa s;
            same(&c, &want_vs, "a op= s");
        }
    };
}
/// the four kernels (vector-vector, assign, vector-scalar, scalar-vector) only: for long vectors
macro_rules! vec_core {
    ($fname:ident, $op:tt, $opa:tt) => {
        fn $fname<const L: usize>() {
            let a0: [f64; L] = inp::arr(0);
            let b0: [f64; L] = inp::arr(100);
            let s = inp::f64(200);
            let a = Vector::new(a0.to_vec());
            let b = Vector::new(b0.to_vec());
            let mut want = [0.0f64; L];
            let mut want_vs = [0.0f64; L];
            let mut want_sv = [0.0f64; L];
            let mut i = 0;
            while i < L {
                want[i] = a0[i] $op b0[i];
                want_vs[i] = a0[i] $op s;
                want_sv[i] = s $op a0[i];
                i += 1;
            }
            same(&(&a $op &b), &want, "&a op &b");
            let mut c = a.clone();
            c $opa &b;
            same(&c, &want, "a op= &b");
            same(&(&a $op s), &want_vs, "&a op s");
            same(&(s $op &a), &want_sv, "s op &a");
            let mut c = a.clone();
            c $opa s;
            same(&c, &want_vs, "a op= s");
            same(&a, &a0, "lhs unchanged");
            same(&b, &b0, "rhs unchanged");
        }
    };
}
vec_core!(vecc_add, +, +=);
vec_core!(vecc_sub, -, -=);
vec_core!(vecc_mul, *, *=);
vec_core!(vecc_div, /, /=);
vec_forms!(vec_add, +, +=);
vec_forms!(vec_sub, -, -=);
vec_forms!(vec_mul, *, *=);
vec_forms!(vec_div, /, /=);


macro_rules! mat_forms {
    ($fname:ident, $op:tt, $opa:tt) => {
        fn $fname<const R: usize, const C: usize>() {
            let a0 = inp::vec(0, R * C);
            let b0 = inp::vec(100, R * C);
            let s = inp::f64(200);
            let a = Matrix::new(a0.clone(), R as i32, C as i32);
            let b = Matrix::new(b0.clone(), R as i32, C as i32);
            let mut want = vec![0.0f64; R * C];
            let mut want_vs = vec![0.0f64; R * C];
            let mut want_sv = vec![0.0f64; R * C];
            let mut i = 0;
            while i < R * C {
                want[i] = a0[i] $op b0[i];
                want_vs[i] = a0[i] $op s;
                want_sv[i] = s $op a0[i];
                i += 1;
            }
            let chk = |m: &Matrix, w: &[f64], what: &'static str| {
                vassert!(m.nrows == R && m.ncols == C && m.data.len() == R * C, "{}: shape {}x{}", what, m.nrows, m.ncols);
                let mut i = 0;
                while i < R * C && i < m.data.len() {
                    vbits!(m.data[i], w[i], "{} changed at {}", what, i);
                    i += 1;
                }
            };
            // compound assignment (matrix and scalar right-hand sides)
            let mut c = a.clone();
            c $opa &b;
            chk(&c, &want, "A op= &B");
            chk(&b, &b0, "rhs after A op= &B");
            let mut c = a.clone();
            c $opa b.clone();
            chk(&c, &want, "A op= B");
            let mut c = a.clone();
            c $opa s;
            chk(&c, &want_vs, "A op= s");
            // scalar on the right / left, owned and borrowed
            chk(&(&a $op s), &want_vs, "&A op s");
            chk(&(a.clone() $op s), &want_vs, "A op s");
            chk(&(s $op &a), &want_sv, "s op &A");
            chk(&(s $op a.clone()), &want_sv, "s op A");
            chk(&a, &a0, "operand after scalar forms");
            // matrix ∘ matrix of equal shape (through the broadcasting entry point)
            chk(&(&a $op &b), &want, "&A op &B");
            chk(&(a.clone() $op b.clone()), &want, "A op B");
        }
    };
}
mat_forms!(mat_add, +, +=);
mat_forms!(mat_sub, -, -=);
mat_forms!(mat_mul, *, *=);
mat_forms!(mat_div, /, /=);

// @bound c04_map_: one instance per map at length L (9 = one unrolled block plus a remainder; also 0, 1, 17); values opaque (U)
// @claim c04_map_: Vector and Matrix forms of every unary map apply exactly the f64 method of the same name at every position (each libm function is its own uninterpreted symbol, so a mis-wired macro instance is a different term); Neg flips the sign bit
macro_rules! map_h {
    ($fname:ident, $m:ident) => {
        fn $fname<const L: usize>() {
            let a0: [f64; L] = inp::arr(0);
            let a = Vector::new(a0.to_vec());
            let mut want = [0.0f64; L];
            let mut i = 0;
            while i < L {
                want[i] = a0[i].$m();
                i += 1;
            }
            same(&a.$m(), &want, stringify!($m));
            same(&a, &a0, "operand after the map");
            if L > 0 {
                let m = Matrix::new(a0.to_vec(), 1, L as i32).$m();
                vassert!(m.nrows == 1 && m.ncols == L, "Matrix map shape");
                same(&m.data, &want, stringify!($m));
            }
        }
    };
}
map_h!(map_ln, ln);
map_h!(map_ln_1p, ln_1p);
map_h!(map_log10, log10);
map_h!(map_log2, log2);
map_h!(map_exp, exp);
map_h!(map_exp2, exp2);
map_h!(map_exp_m1, exp_m1);
map_h!(map_sin, sin);
map_h!(map_cos, cos);
map_h!(map_tan, tan);
map_h!(map_sinh, sinh);
map_h!(map_cosh, cosh);
map_h!(map_tanh, tanh);
map_h!(map_asin, asin);
map_h!(map_acos, acos);
map_h!(map_atan, atan);
map_h!(map_asinh, asinh);
map_h!(map_acosh, acosh);
map_h!(map_atanh, atanh);
map_h!(map_sqrt, sqrt);
map_h!(map_cbrt, cbrt);
map_h!(map_abs, abs);
map_h!(map_floor, floor);
map_h!(map_ceil, ceil);
map_h!(map_to_radians, to_radians);
map_h!(map_to_degrees, to_degrees);
map_h!(map_recip, recip);
map_h!(map_round, round);
map_h!(map_signum, signum);

fn neg_h<const L: usize>() {
    let a0: [f64; L] = inp::arr(0);
    let mut want = [0.0f64; L];
    let mut i = 0;
    while i < L {
        want[i] = -a0[i];
        i += 1;
    }
    same(&(-Vector::new(a0.to_vec())), &want, "-v");
    if L > 0 {
        let m = -Matrix::new(a0.to_vec(), L as i32, 1);
        vassert!(m.nrows == L && m.ncols == 1, "-M shape");
        same(&m.data, &want, "-M");
    }
}
// @claim c04_pow_: powi (exponents -1, 0, 1, 2, 3, 4: the unrolled blocks use x*x and x*x*x for 2 and 3) and powf with a symbolic exponent
fn powi_h<const L: usize>(e: i32) {
    let a0: [f64; L] = inp::arr(0);
    let a = Vector::new(a0.to_vec());
    let mut want = [0.0f64; L];
    let mut i = 0;
    while i < L {
        want[i] = a0[i].powi(e);
        i += 1;
    }
    same(&a.powi(e), &want, "powi");
    if L > 0 {
        same(&Matrix::new(a0.to_vec(), 1, L as i32).powi(e).data, &want, "Matrix powi");
    }
}
fn powf_h<const L: usize>() {
    let a0: [f64; L] = inp::arr(0);
    let e = inp::f64(200);
    let a = Vector::new(a0.to_vec());
    let mut want = [0.0f64; L];
    let mut i = 0;
    while i < L {
        want[i] = a0[i].powf(e);
        i += 1;
    }
    same(&a.powf(e), &want, "powf");
    if L > 0 {
        same(&Matrix::new(a0.to_vec(), L as i32, 1).powf(e).data, &want, "Matrix powf");
    }
}

// @claim c04_mismatch_: operands of different length / shape are rejected by a panic
fn mismatch(which: u8) {
    let a = Vector::new(inp::vec(0, 9));
    let b = Vector::new(inp::vec(100, 8));
    let e = Vector::new(Vec::new());
    let o = Vector::new(inp::vec(150, 1));
    match which {
        0 => vmustpanic!(&a + &b, "9 + 8"),
        1 => vmustpanic!(a.clone() - b.clone(), "9 - 8"),
        2 => vmustpanic!(&b * &a, "8 * 9"),
        3 => vmustpanic!(&e / &o, "0 / 1"),
        4 => { let mut c = a.clone(); vmustpanic!({ c += &b; c.len() }, "9 += 8"); }
        5 => { let mut c = b.clone(); vmustpanic!({ c /= a.clone(); c.len() }, "8 /= 9"); }
        6 => { let mut m = Matrix::new(inp::vec(0, 6), 2, 3); let n = Matrix::new(inp::vec(100, 6), 3, 2); vmustpanic!({ m += &n; m.nrows }, "2x3 += 3x2"); }
        _ => { let mut m = Matrix::new(inp::vec(0, 6), 2, 3); let n = Matrix::new(inp::vec(100, 4), 2, 2); vmustpanic!({ m *= n; m.nrows }, "2x3 *= 2x2"); }
    }
}

// ---- reductions (R)
fn amax(v: &[f64]) -> f64 {
    let mut s: f64 = 1.0;
    for x in v {
        s = s.max(x.abs());
    }
    s
}
// @bound c04_red_: length L (instance), every real vector in ±1e3
// @claim c04_red_: sum, prod, dot, norm (as norm^2 = sum x_i^2, norm >= 0), inf_norm = max row sum of |.| equal their definitions (R); Vector / Matrix method forms call the same functions
pub fn red<const L: usize>() {
    let x: [f64; L] = inp::arr(0);
    let y: [f64; L] = inp::arr(100);
    let mut i = 0;
    while i < L {
        vassume!(x[i] >= -1.0e3 && x[i] <= 1.0e3 && y[i] >= -1.0e3 && y[i] <= 1.0e3);
        i += 1;
    }
    let (mut s, mut p, mut d, mut q, mut ab) = (0.0, 1.0, 0.0, 0.0, 0.0);
    let mut i = 0;
    while i < L {
        s += x[i];
        p *= x[i];
        d += x[i] * y[i];
        q += x[i] * x[i];
        ab += crate::rt::fabs(x[i]);
        i += 1;
    }
    let sc = amax(&x) * amax(&y) * (L as f64 + 1.0);
    vclose!(sum(&x), s, 1e-9 * sc, "sum L={}", L);
    vclose!(dot(&x, &y), d, 1e-9 * sc, "dot L={}", L);
    if L <= 4 {
        vclose!(prod(&x), p, 1e-6 * (1.0 + crate::rt::fabs(p)), "prod L={}", L);
    }
    let n = norm(&x);
    vassert!(n >= 0.0, "norm negative");
    vclose!(n * n, q, 1e-9 * sc * amax(&x), "norm^2 L={}", L);
    if L > 0 {
        // one row: infinity norm = sum of absolute values
        vclose!(inf_norm(&x, 1), ab, 1e-9 * sc, "inf_norm, one row");
        let v = Vector::new(x.to_vec());
        vclose!(v.sum(), s, 1e-9 * sc, "Vector::sum");
        vclose!(Matrix::new(x.to_vec(), 1, L as i32).sum(), s, 1e-9 * sc, "Matrix::sum");
    }
}
// @claim c04_infnorm_: inf_norm of an RxC matrix is the largest row sum of absolute values (R)
fn infnorm<const R: usize, const C: usize>() {
    let x = inp::vec(0, R * C);
    for v in &x {
        vassume!(*v >= -1.0e3 && *v <= 1.0e3);
    }
    let got = inf_norm(&x, R);
    let mut best = 0.0;
    let mut hit = false;
    let mut i = 0;
    while i < R {
        let mut s = 0.0;
        let mut j = 0;
        while j < C {
            s += crate::rt::fabs(x[i * C + j]);
            j += 1;
        }
        vassert!(got >= s - 1e-9, "inf_norm below row sum {}", i);
        if got <= s + 1e-9 && got >= s - 1e-9 {
            hit = true;
        }
        if s > best {
            best = s;
        }
        i += 1;
    }
    vassert!(hit, "inf_norm {:e} is not a row sum (max {:e})", got, best);
}
// @axioms c04_lse_: exp_pos exp_zero exp_ratio exp_log log_mul
// @bound c04_lse_: length L (instance), log-domain inputs in ±1e4
// @claim c04_lse_: no exponential argument of logsumexp / logmeanexp can exceed 709.78 and the logarithm's argument cannot underflow to 0 (no overflow / underflow for large-magnitude inputs); for L = 1 the result is the input itself (R)
fn lse<const L: usize>() {
    crate::rt::range_checks_on();
    let x: [f64; L] = inp::arr(0);
    let mut i = 0;
    while i < L {
        vassume!(x[i] >= -1.0e4 && x[i] <= 1.0e4);
        i += 1;
    }
    let a = logsumexp(&x);
    let b = logmeanexp(&x);
    if L == 1 {
        #[cfg(kani)]
        vassume!((0.0f64).exp() == 1.0 && (1.0f64).ln() == 0.0);
        vclose!(a, x[0], 1e-9 * (1.0 + crate::rt::fabs(x[0])), "logsumexp of one element");
        vclose!(b, x[0], 1e-9 * (1.0 + crate::rt::fabs(x[0])), "logmeanexp of one element");
    } else {
        // (symbolically only the overflow obligations matter here; natively a NaN / inf result is the failure)
        #[cfg(not(kani))]
        vassert!(a.is_finite() && b.is_finite(), "log-domain reduction is not finite: {:e} {:e}", a, b);
        // keep the computation in the sliced formula (a tautology over the reals that mentions both results)
        #[cfg(kani)]
        crate::rt::record(!(a < b) || a <= b);
    }
}
harness!(name=c04_vec_add_0, prop=C04, mode=U, kind=normal, tier=quick, unwind=20, { vec_add::<0>() });
harness!(name=c04_vec_add_1, prop=C04, mode=U, kind=normal, tier=quick, unwind=20, { vec_add::<1>() });
harness!(name=c04_vec_add_2, prop=C04, mode=U, kind=normal, tier=thorough, unwind=20, { vec_add::<2>() });
harness!(name=c04_vec_add_3, prop=C04, mode=U, kind=normal, tier=thorough, unwind=20, { vec_add::<3>() });
harness!(name=c04_vec_add_4, prop=C04, mode=U, kind=normal, tier=thorough, unwind=20, { vec_add::<4>() });
harness!(name=c04_vec_add_5, prop=C04, mode=U, kind=normal, tier=thorough, unwind=20, { vec_add::<5>() });
harness!(name=c04_vec_add_6, prop=C04, mode=U, kind=normal, tier=thorough, unwind=20, { vec_add::<6>() });
harness!(name=c04_vec_add_7, prop=C04, mode=U, kind=normal, tier=rot1, unwind=20, { vec_add::<7>() });
harness!(name=c04_vec_add_8, prop=C04, mode=U, kind=normal, tier=quick, unwind=20, { vec_add::<8>() });
harness!(name=c04_vec_add_9, prop=C04, mode=U, kind=normal, tier=quick, unwind=20, { vec_add::<9>() });
harness!(name=c04_vec_add_10, prop=C04, mode=U, kind=normal, tier=thorough, unwind=20, { vec_add::<10>() });
harness!(name=c04_vec_add_11, prop=C04, mode=U, kind=normal, tier=thorough, unwind=20, { vec_add::<11>() });
harness!(name=c04_vec_add_12, prop=C04, mode=U, kind=normal, tier=thorough, unwind=20, { vec_add::<12>() });
harness!(name=c04_vec_add_13, prop=C04, mode=U, kind=normal, tier=thorough, unwind=20, { vec_add::<13>() });
harness!(name=c04_vec_add_14, prop=C04, mode=U, kind=normal, tier=thorough, unwind=20, { vec_add::<14>() });
harness!(name=c04_vec_add_15, prop=C04, mode=U, kind=normal, tier=rot0, unwind=20, { vecc_add::<15>() });
harness!(name=c04_vec_add_16, prop=C04, mode=U, kind=normal, tier=rot1, unwind=20, { vecc_add::<16>() });
harness!(name=c04_vec_add_17, prop=C04, mode=U, kind=normal, tier=quick, unwind=21, { vecc_add::<17>() });
harness!(name=c04_vec_add_18, prop=C04, mode=U, kind=normal, tier=thorough, unwind=22, { vecc_add::<18>() });
harness!(name=c04_vec_add_19, prop=C04, mode=U, kind=normal, tier=thorough, unwind=23, { vecc_add::<19>() });
harness!(name=c04_vec_add_20, prop=C04, mode=U, kind=normal, tier=thorough, unwind=24, { vecc_add::<20>() });
harness!(name=c04_vec_add_21, prop=C04, mode=U, kind=normal, tier=thorough, unwind=25, { vecc_add::<21>() });
harness!(name=c04_vec_add_22, prop=C04, mode=U, kind=normal, tier=thorough, unwind=26, { vecc_add::<22>() });
harness!(name=c04_vec_add_23, prop=C04, mode=U, kind=normal, tier=thorough, unwind=27, { vecc_add::<23>() });
harness!(name=c04_vec_add_24, prop=C04, mode=U, kind=normal, tier=thorough, unwind=28, { vecc_add::<24>() });
harness!(name=c04_vec_add_33, prop=C04, mode=U, kind=normal, tier=thorough, unwind=40, { vecc_add::<33>() });
harness!(name=c04_vec_sub_0, prop=C04, mode=U, kind=normal, tier=quick, unwind=20, { vec_sub::<0>() });
harness!(name=c04_vec_sub_1, prop=C04, mode=U, kind=normal, tier=quick, unwind=20, { vec_sub::<1>() });
harness!(name=c04_vec_sub_2, prop=C04, mode=U, kind=normal, tier=thorough, unwind=20, { vec_sub::<2>() });
harness!(name=c04_vec_sub_3, prop=C04, mode=U, kind=normal, tier=thorough, unwind=20, { vec_sub::<3>() });
harness!(name=c04_vec_sub_4, prop=C04, mode=U, kind=normal, tier=thorough, unwind=20, { vec_sub::<4>() });
harness!(name=c04_vec_sub_5, prop=C04, mode=U, kind=normal, tier=thorough, unwind=20, { vec_sub::<5>() });
harness!(name=c04_vec_sub_6, prop=C04, mode=U, kind=normal, tier=thorough, unwind=20, { vec_sub::<6>() });
harness!(name=c04_vec_sub_7, prop=C04, mode=U, kind=normal, tier=rot2, unwind=20, { vec_sub::<7>() });
harness!(name=c04_vec_sub_8, prop=C04, mode=U, kind=normal, tier=quick, unwind=20, { vec_sub::<8>() });
harness!(name=c04_vec_sub_9, prop=C04, mode=U, kind=normal, tier=quick, unwind=20, { vec_sub::<9>() });
harness!(name=c04_vec_sub_10, prop=C04, mode=U, kind=normal, tier=thorough, unwind=20, { vec_sub::<10>() });
harness!(name=c04_vec_sub_11, prop=C04, mode=U, kind=normal, tier=thorough, unwind=20, { vec_sub::<11>() });
harness!(name=c04_vec_sub_12, prop=C04, mode=U, kind=normal, tier=thorough, unwind=20, { vec_sub::<12>() });
harness!(name=c04_vec_sub_13, prop=C04, mode=U, kind=normal, tier=thorough, unwind=20, { vec_sub::<13>() });
harness!(name=c04_vec_sub_14, prop=C04, mode=U, kind=normal, tier=thorough, unwind=20, { vec_sub::<14>() });
harness!(name=c04_vec_sub_15, prop=C04, mode=U, kind=normal, tier=rot1, unwind=20, { vecc_sub::<15>() });
harness!(name=c04_vec_sub_16, prop=C04, mode=U, kind=normal, tier=rot2, unwind=20, { vecc_sub::<16>() });
harness!(name=c04_vec_sub_17, prop=C04, mode=U, kind=normal, tier=quick, unwind=21, { vecc_sub::<17>() });
harness!(name=c04_vec_sub_18, prop=C04, mode=U, kind=normal, tier=thorough, unwind=22, { vecc_sub::<18>() });
harness!(name=c04_vec_sub_19, prop=C04, mode=U, kind=normal, tier=thorough, unwind=23, { vecc_sub::<19>() });
harness!(name=c04_vec_sub_20, prop=C04, mode=U, kind=normal, tier=thorough, unwind=24, { vecc_sub::<20>() });
harness!(name=c04_vec_sub_21, prop=C04, mode=U, kind=normal, tier=thorough, unwind=25, { vecc_sub::<21>() });
harness!(name=c04_vec_sub_22, prop=C04, mode=U, kind=normal, tier=thorough, unwind=26, { vecc_sub::<22>() });
harness!(name=c04_vec_sub_23, prop=C04, mode=U, kind=normal, tier=thorough, unwind=27, { vecc_sub::<23>() });
harness!(name=c04_vec_sub_24, prop=C04, mode=U, kind=normal, tier=thorough, unwind=28, { vecc_sub::<24>() });
harness!(name=c04_vec_sub_33, prop=C04, mode=U, kind=normal, tier=thorough, unwind=40, { vecc_sub::<33>() });
harness!(name=c04_vec_mul_0, prop=C04, mode=U, kind=normal, tier=quick, unwind=20, { vec_mul::<0>() });
harness!(name=c04_vec_mul_1, prop=C04, mode=U, kind=normal, tier=quick, unwind=20, { vec_mul::<1>() });
harness!(name=c04_vec_mul_2, prop=C04, mode=U, kind=normal, tier=thorough, unwind=20, { vec_mul::<2>() });
harness!(name=c04_vec_mul_3, prop=C04, mode=U, kind=normal, tier=thorough, unwind=20, { vec_mul::<3>() });
harness!(name=c04_vec_mul_4, prop=C04, mode=U, kind=normal, tier=thorough, unwind=20, { vec_mul::<4>() });
harness!(name=c04_vec_mul_5, prop=C04, mode=U, kind=normal, tier=thorough, unwind=20, { vec_mul::<5>() });
harness!(name=c04_vec_mul_6, prop=C04, mode=U, kind=normal, tier=thorough, unwind=20, { vec_mul::<6>() });
harness!(name=c04_vec_mul_7, prop=C04, mode=U, kind=normal, tier=rot0, unwind=20, { vec_mul::<7>() });
harness!(name=c04_vec_mul_8, prop=C04, mode=U, kind=normal, tier=quick, unwind=20, { vec_mul::<8>() });
harness!(name=c04_vec_mul_9, prop=C04, mode=U, kind=normal, tier=quick, unwind=20, { vec_mul::<9>() });
harness!(name=c04_vec_mul_10, prop=C04, mode=U, kind=normal, tier=thorough, unwind=20, { vec_mul::<10>() });
harness!(name=c04_vec_mul_11, prop=C04, mode=U, kind=normal, tier=thorough, unwind=20, { vec_mul::<11>() });
harness!(name=c04_vec_mul_12, prop=C04, mode=U, kind=normal, tier=thorough, unwind=20, { vec_mul::<12>() });
harness!(name=c04_vec_mul_13, prop=C04, mode=U, kind=normal, tier=thorough, unwind=20, { vec_mul::<13>() });
harness!(name=c04_vec_mul_14, prop=C04, mode=U, kind=normal, tier=thorough, unwind=20, { vec_mul::<14>() });
harness!(name=c04_vec_mul_15, prop=C04, mode=U, kind=normal, tier=rot2, unwind=20, { vecc_mul::<15>() });
harness!(name=c04_vec_mul_16, prop=C04, mode=U, kind=normal, tier=rot0, unwind=20, { vecc_mul::<16>() });
harness!(name=c04_vec_mul_17, prop=C04, mode=U, kind=normal, tier=quick, unwind=21, { vecc_mul::<17>() });
harness!(name=c04_vec_mul_18, prop=C04, mode=U, kind=normal, tier=thorough, unwind=22, { vecc_mul::<18>() });
harness!(name=c04_vec_mul_19, prop=C04, mode=U, kind=normal, tier=thorough, unwind=23, { vecc_mul::<19>() });
harness!(name=c04_vec_mul_20, prop=C04, mode=U, kind=normal, tier=thorough, unwind=24, { vecc_mul::<20>() });
harness!(name=c04_vec_mul_21, prop=C04, mode=U, kind=normal, tier=thorough, unwind=25, { vecc_mul::<21>() });
harness!(name=c04_vec_mul_22, prop=C04, mode=U, kind=normal, tier=thorough, unwind=26, { vecc_mul::<22>() });
harness!(name=c04_vec_mul_23, prop=C04, mode=U, kind=normal, tier=thorough, unwind=27, { vecc_mul::<23>() });
harness!(name=c04_vec_mul_24, prop=C04, mode=U, kind=normal, tier=thorough, unwind=28, { vecc_mul::<24>() });
harness!(name=c04_vec_mul_33, prop=C04, mode=U, kind=normal, tier=thorough, unwind=40, { vecc_mul::<33>() });
harness!(name=c04_vec_div_0, prop=C04, mode=U, kind=normal, tier=quick, unwind=20, { vec_div::<0>() });
harness!(name=c04_vec_div_1, prop=C04, mode=U, kind=normal, tier=quick, unwind=20, { vec_div::<1>() });
harness!(name=c04_vec_div_2, prop=C04, mode=U, kind=normal, tier=thorough, unwind=20, { vec_div::<2>() });
harness!(name=c04_vec_div_3, prop=C04, mode=U, kind=normal, tier=thorough, unwind=20, { vec_div::<3>() });
harness!(name=c04_vec_div_4, prop=C04, mode=U, kind=normal, tier=thorough, unwind=20, { vec_div::<4>() });
harness!(name=c04_vec_div_5, prop=C04, mode=U, kind=normal, tier=thorough, unwind=20, { vec_div::<5>() });
harness!(name=c04_vec_div_6, prop=C04, mode=U, kind=normal, tier=thorough, unwind=20, { vec_div::<6>() });
harness!(name=c04_vec_div_7, prop=C04, mode=U, kind=normal, tier=rot1, unwind=20, { vec_div::<7>() });
harness!(name=c04_vec_div_8, prop=C04, mode=U, kind=normal, tier=quick, unwind=20, { vec_div::<8>() });
harness!(name=c04_vec_div_9, prop=C04, mode=U, kind=normal, tier=quick, unwind=20, { vec_div::<9>() });
harness!(name=c04_vec_div_10, prop=C04, mode=U, kind=normal, tier=thorough, unwind=20, { vec_div::<10>() });
harness!(name=c04_vec_div_11, prop=C04, mode=U, kind=normal, tier=thorough, unwind=20, { vec_div::<11>() });
harness!(name=c04_vec_div_12, prop=C04, mode=U, kind=normal, tier=thorough, unwind=20, { vec_div::<12>() });
harness!(name=c04_vec_div_13, prop=C04, mode=U, kind=normal, tier=thorough, unwind=20, { vec_div::<13>() });
harness!(name=c04_vec_div_14, prop=C04, mode=U, kind=normal, tier=thorough, unwind=20, { vec_div::<14>() });
harness!(name=c04_vec_div_15, prop=C04, mode=U, kind=normal, tier=rot0, unwind=20, { vecc_div::<15>() });
harness!(name=c04_vec_div_16, prop=C04, mode=U, kind=normal, tier=rot1, unwind=20, { vecc_div::<16>() });
harness!(name=c04_vec_div_17, prop=C04, mode=U, kind=normal, tier=quick, unwind=21, { vecc_div::<17>() });
harness!(name=c04_vec_div_18, prop=C04, mode=U, kind=normal, tier=thorough, unwind=22, { vecc_div::<18>() });
harness!(name=c04_vec_div_19, prop=C04, mode=U, kind=normal, tier=thorough, unwind=23, { vecc_div::<19>() });
harness!(name=c04_vec_div_20, prop=C04, mode=U, kind=normal, tier=thorough, unwind=24, { vecc_div::<20>() });
harness!(name=c04_vec_div_21, prop=C04, mode=U, kind=normal, tier=thorough, unwind=25, { vecc_div::<21>() });
harness!(name=c04_vec_div_22, prop=C04, mode=U, kind=normal, tier=thorough, unwind=26, { vecc_div::<22>() });
harness!(name=c04_vec_div_23, prop=C04, mode=U, kind=normal, tier=thorough, unwind=27, { vecc_div::<23>() });
harness!(name=c04_vec_div_24, prop=C04, mode=U, kind=normal, tier=thorough, unwind=28, { vecc_div::<24>() });
harness!(name=c04_vec_div_33, prop=C04, mode=U, kind=normal, tier=thorough, unwind=40, { vecc_div::<33>() });
harness!(name=c04_mat_add_1x1, prop=C04, mode=U, kind=normal, tier=quick, unwind=22, { mat_add::<1, 1>() });
harness!(name=c04_mat_add_2x3, prop=C04, mode=U, kind=normal, tier=quick, unwind=22, { mat_add::<2, 3>() });
harness!(name=c04_mat_add_3x3, prop=C04, mode=U, kind=normal, tier=quick, unwind=22, { mat_add::<3, 3>() });
harness!(name=c04_mat_add_2x8, prop=C04, mode=U, kind=normal, tier=rot0, unwind=22, { mat_add::<2, 8>() });
harness!(name=c04_mat_add_1x17, prop=C04, mode=U, kind=normal, tier=rot1, unwind=22, { mat_add::<1, 17>() });
harness!(name=c04_mat_add_4x4, prop=C04, mode=U, kind=normal, tier=thorough, unwind=22, { mat_add::<4, 4>() });
harness!(name=c04_mat_sub_1x1, prop=C04, mode=U, kind=normal, tier=quick, unwind=22, { mat_sub::<1, 1>() });
harness!(name=c04_mat_sub_2x3, prop=C04, mode=U, kind=normal, tier=quick, unwind=22, { mat_sub::<2, 3>() });
harness!(name=c04_mat_sub_3x3, prop=C04, mode=U, kind=normal, tier=quick, unwind=22, { mat_sub::<3, 3>() });
harness!(name=c04_mat_sub_2x8, prop=C04, mode=U, kind=normal, tier=rot0, unwind=22, { mat_sub::<2, 8>() });
harness!(name=c04_mat_sub_1x17, prop=C04, mode=U, kind=normal, tier=rot1, unwind=22, { mat_sub::<1, 17>() });
harness!(name=c04_mat_sub_4x4, prop=C04, mode=U, kind=normal, tier=thorough, unwind=22, { mat_sub::<4, 4>() });
harness!(name=c04_mat_mul_1x1, prop=C04, mode=U, kind=normal, tier=quick, unwind=22, { mat_mul::<1, 1>() });
harness!(name=c04_mat_mul_2x3, prop=C04, mode=U, kind=normal, tier=quick, unwind=22, { mat_mul::<2, 3>() });
harness!(name=c04_mat_mul_3x3, prop=C04, mode=U, kind=normal, tier=quick, unwind=22, { mat_mul::<3, 3>() });
harness!(name=c04_mat_mul_2x8, prop=C04, mode=U, kind=normal, tier=rot0, unwind=22, { mat_mul::<2, 8>() });
harness!(name=c04_mat_mul_1x17, prop=C04, mode=U, kind=normal, tier=rot1, unwind=22, { mat_mul::<1, 17>() });
harness!(name=c04_mat_mul_4x4, prop=C04, mode=U, kind=normal, tier=thorough, unwind=22, { mat_mul::<4, 4>() });
harness!(name=c04_mat_div_1x1, prop=C04, mode=U, kind=normal, tier=quick, unwind=22, { mat_div::<1, 1>() });
harness!(name=c04_mat_div_2x3, prop=C04, mode=U, kind=normal, tier=quick, unwind=22, { mat_div::<2, 3>() });
harness!(name=c04_mat_div_3x3, prop=C04, mode=U, kind=normal, tier=quick, unwind=22, { mat_div::<3, 3>() });
harness!(name=c04_mat_div_2x8, prop=C04, mode=U, kind=normal, tier=rot0, unwind=22, { mat_div::<2, 8>() });
harness!(name=c04_mat_div_1x17, prop=C04, mode=U, kind=normal, tier=rot1, unwind=22, { mat_div::<1, 17>() });
harness!(name=c04_mat_div_4x4, prop=C04, mode=U, kind=normal, tier=thorough, unwind=22, { mat_div::<4, 4>() });
harness!(name=c04_map_ln_9, prop=C04, mode=U, kind=normal, tier=quick, unwind=20, { map_ln::<9>() });
harness!(name=c04_map_ln_17, prop=C04, mode=U, kind=normal, tier=rot0, unwind=24, { map_ln::<17>() });
harness!(name=c04_map_ln_1p_9, prop=C04, mode=U, kind=normal, tier=quick, unwind=20, { map_ln_1p::<9>() });
harness!(name=c04_map_ln_1p_17, prop=C04, mode=U, kind=normal, tier=rot1, unwind=24, { map_ln_1p::<17>() });
harness!(name=c04_map_log10_9, prop=C04, mode=U, kind=normal, tier=quick, unwind=20, { map_log10::<9>() });
harness!(name=c04_map_log10_17, prop=C04, mode=U, kind=normal, tier=rot2, unwind=24, { map_log10::<17>() });
harness!(name=c04_map_log2_9, prop=C04, mode=U, kind=normal, tier=quick, unwind=20, { map_log2::<9>() });
harness!(name=c04_map_log2_17, prop=C04, mode=U, kind=normal, tier=rot0, unwind=24, { map_log2::<17>() });
harness!(name=c04_map_exp_9, prop=C04, mode=U, kind=normal, tier=quick, unwind=20, { map_exp::<9>() });
harness!(name=c04_map_exp_17, prop=C04, mode=U, kind=normal, tier=rot1, unwind=24, { map_exp::<17>() });
harness!(name=c04_map_exp2_9, prop=C04, mode=U, kind=normal, tier=quick, unwind=20, { map_exp2::<9>() });
harness!(name=c04_map_exp2_17, prop=C04, mode=U, kind=normal, tier=rot2, unwind=24, { map_exp2::<17>() });
harness!(name=c04_map_exp_m1_9, prop=C04, mode=U, kind=normal, tier=quick, unwind=20, { map_exp_m1::<9>() });
harness!(name=c04_map_exp_m1_17, prop=C04, mode=U, kind=normal, tier=rot0, unwind=24, { map_exp_m1::<17>() });
harness!(name=c04_map_sin_9, prop=C04, mode=U, kind=normal, tier=quick, unwind=20, { map_sin::<9>() });
harness!(name=c04_map_sin_17, prop=C04, mode=U, kind=normal, tier=rot1, unwind=24, { map_sin::<17>() });
harness!(name=c04_map_cos_9, prop=C04, mode=U, kind=normal, tier=quick, unwind=20, { map_cos::<9>() });
harness!(name=c04_map_cos_17, prop=C04, mode=U, kind=normal, tier=rot2, unwind=24, { map_cos::<17>() });
harness!(name=c04_map_tan_9, prop=C04, mode=U, kind=normal, tier=quick, unwind=20, { map_tan::<9>() });
harness!(name=c04_map_tan_17, prop=C04, mode=U, kind=normal, tier=rot0, unwind=24, { map_tan::<17>() });
harness!(name=c04_map_sinh_9, prop=C04, mode=U, kind=normal, tier=quick, unwind=20, { map_sinh::<9>() });
harness!(name=c04_map_sinh_17, prop=C04, mode=U, kind=normal, tier=rot1, unwind=24, { map_sinh::<17>() });
harness!(name=c04_map_cosh_9, prop=C04, mode=U, kind=normal, tier=quick, unwind=20, { map_cosh::<9>() });
harness!(name=c04_map_cosh_17, prop=C04, mode=U, kind=normal, tier=rot2, unwind=24, { map_cosh::<17>() });
harness!(name=c04_map_tanh_9, prop=C04, mode=U, kind=normal, tier=quick, unwind=20, { map_tanh::<9>() });
harness!(name=c04_map_tanh_17, prop=C04, mode=U, kind=normal, tier=rot0, unwind=24, { map_tanh::<17>() });
harness!(name=c04_map_asin_9, prop=C04, mode=U, kind=normal, tier=quick, unwind=20, { map_asin::<9>() });
harness!(name=c04_map_asin_17, prop=C04, mode=U, kind=normal, tier=rot1, unwind=24, { map_asin::<17>() });
harness!(name=c04_map_acos_9, prop=C04, mode=U, kind=normal, tier=quick, unwind=20, { map_acos::<9>() });
harness!(name=c04_map_acos_17, prop=C04, mode=U, kind=normal, tier=rot2, unwind=24, { map_acos::<17>() });
harness!(name=c04_map_atan_9, prop=C04, mode=U, kind=normal, tier=quick, unwind=20, { map_atan::<9>() });
harness!(name=c04_map_atan_17, prop=C04, mode=U, kind=normal, tier=rot0, unwind=24, { map_atan::<17>() });
harness!(name=c04_map_asinh_9, prop=C04, mode=U, kind=normal, tier=quick, unwind=20, { map_asinh::<9>() });
harness!(name=c04_map_asinh_17, prop=C04, mode=U, kind=normal, tier=rot1, unwind=24, { map_asinh::<17>() });
harness!(name=c04_map_acosh_9, prop=C04, mode=U, kind=normal, tier=quick, unwind=20, { map_acosh::<9>() });
harness!(name=c04_map_acosh_17, prop=C04, mode=U, kind=normal, tier=rot2, unwind=24, { map_acosh::<17>() });
harness!(name=c04_map_atanh_9, prop=C04, mode=U, kind=normal, tier=quick, unwind=20, { map_atanh::<9>() });
harness!(name=c04_map_atanh_17, prop=C04, mode=U, kind=normal, tier=rot0, unwind=24, { map_atanh::<17>() });
harness!(name=c04_map_sqrt_9, prop=C04, mode=U, kind=normal, tier=quick, unwind=20, { map_sqrt::<9>() });
harness!(name=c04_map_sqrt_17, prop=C04, mode=U, kind=normal, tier=rot1, unwind=24, { map_sqrt::<17>() });
harness!(name=c04_map_cbrt_9, prop=C04, mode=U, kind=normal, tier=quick, unwind=20, { map_cbrt::<9>() });
harness!(name=c04_map_cbrt_17, prop=C04, mode=U, kind=normal, tier=rot2, unwind=24, { map_cbrt::<17>() });
harness!(name=c04_map_abs_9, prop=C04, mode=U, kind=normal, tier=quick, unwind=20, { map_abs::<9>() });
harness!(name=c04_map_abs_17, prop=C04, mode=U, kind=normal, tier=rot0, unwind=24, { map_abs::<17>() });
harness!(name=c04_map_floor_9, prop=C04, mode=U, kind=normal, tier=quick, unwind=20, { map_floor::<9>() });
harness!(name=c04_map_floor_17, prop=C04, mode=U, kind=normal, tier=rot1, unwind=24, { map_floor::<17>() });
harness!(name=c04_map_ceil_9, prop=C04, mode=U, kind=normal, tier=quick, unwind=20, { map_ceil::<9>() });
harness!(name=c04_map_ceil_17, prop=C04, mode=U, kind=normal, tier=rot2, unwind=24, { map_ceil::<17>() });
harness!(name=c04_map_to_radians_9, prop=C04, mode=U, kind=normal, tier=quick, unwind=20, { map_to_radians::<9>() });
harness!(name=c04_map_to_radians_17, prop=C04, mode=U, kind=normal, tier=rot0, unwind=24, { map_to_radians::<17>() });
harness!(name=c04_map_to_degrees_9, prop=C04, mode=U, kind=normal, tier=quick, unwind=20, { map_to_degrees::<9>() });
harness!(name=c04_map_to_degrees_17, prop=C04, mode=U, kind=normal, tier=rot1, unwind=24, { map_to_degrees::<17>() });
harness!(name=c04_map_recip_9, prop=C04, mode=U, kind=normal, tier=quick, unwind=20, { map_recip::<9>() });
harness!(name=c04_map_recip_17, prop=C04, mode=U, kind=normal, tier=rot2, unwind=24, { map_recip::<17>() });
harness!(name=c04_map_round_9, prop=C04, mode=U, kind=normal, tier=quick, unwind=20, { map_round::<9>() });
harness!(name=c04_map_round_17, prop=C04, mode=U, kind=normal, tier=rot0, unwind=24, { map_round::<17>() });
harness!(name=c04_map_signum_9, prop=C04, mode=U, kind=normal, tier=quick, unwind=20, { map_signum::<9>() });
harness!(name=c04_map_signum_17, prop=C04, mode=U, kind=normal, tier=rot1, unwind=24, { map_signum::<17>() });
harness!(name=c04_map_ln_0, prop=C04, mode=U, kind=normal, tier=quick, unwind=20, { map_ln::<0>() });
harness!(name=c04_map_ln_1, prop=C04, mode=U, kind=normal, tier=quick, unwind=20, { map_ln::<1>() });
harness!(name=c04_map_sqrt_0, prop=C04, mode=U, kind=normal, tier=quick, unwind=20, { map_sqrt::<0>() });
harness!(name=c04_map_sqrt_1, prop=C04, mode=U, kind=normal, tier=quick, unwind=20, { map_sqrt::<1>() });
harness!(name=c04_map_abs_0, prop=C04, mode=U, kind=normal, tier=quick, unwind=20, { map_abs::<0>() });
harness!(name=c04_map_abs_1, prop=C04, mode=U, kind=normal, tier=quick, unwind=20, { map_abs::<1>() });
harness!(name=c04_map_recip_0, prop=C04, mode=U, kind=normal, tier=quick, unwind=20, { map_recip::<0>() });
harness!(name=c04_map_recip_1, prop=C04, mode=U, kind=normal, tier=quick, unwind=20, { map_recip::<1>() });
harness!(name=c04_neg_0, prop=C04, mode=U, kind=normal, tier=quick, unwind=24, { neg_h::<0>() });
harness!(name=c04_neg_1, prop=C04, mode=U, kind=normal, tier=quick, unwind=24, { neg_h::<1>() });
harness!(name=c04_neg_9, prop=C04, mode=U, kind=normal, tier=quick, unwind=24, { neg_h::<9>() });
harness!(name=c04_neg_17, prop=C04, mode=U, kind=normal, tier=rot2, unwind=24, { neg_h::<17>() });
harness!(name=c04_pow_im1_9, prop=C04, mode=U, kind=normal, tier=quick, unwind=20, { powi_h::<9>(-1) });
harness!(name=c04_pow_im1_17, prop=C04, mode=U, kind=normal, tier=rot1, unwind=24, { powi_h::<17>(-1) });
harness!(name=c04_pow_i0_9, prop=C04, mode=U, kind=normal, tier=quick, unwind=20, { powi_h::<9>(0) });
harness!(name=c04_pow_i0_17, prop=C04, mode=U, kind=normal, tier=rot0, unwind=24, { powi_h::<17>(0) });
harness!(name=c04_pow_i1_9, prop=C04, mode=U, kind=normal, tier=quick, unwind=20, { powi_h::<9>(1) });
harness!(name=c04_pow_i1_17, prop=C04, mode=U, kind=normal, tier=rot1, unwind=24, { powi_h::<17>(1) });
harness!(name=c04_pow_i2_9, prop=C04, mode=U, kind=normal, tier=quick, unwind=20, { powi_h::<9>(2) });
harness!(name=c04_pow_i2_17, prop=C04, mode=U, kind=normal, tier=rot2, unwind=24, { powi_h::<17>(2) });
harness!(name=c04_pow_i3_9, prop=C04, mode=U, kind=normal, tier=quick, unwind=20, { powi_h::<9>(3) });
harness!(name=c04_pow_i3_17, prop=C04, mode=U, kind=normal, tier=rot0, unwind=24, { powi_h::<17>(3) });
harness!(name=c04_pow_i4_9, prop=C04, mode=U, kind=normal, tier=quick, unwind=20, { powi_h::<9>(4) });
harness!(name=c04_pow_i4_17, prop=C04, mode=U, kind=normal, tier=rot1, unwind=24, { powi_h::<17>(4) });
harness!(name=c04_pow_f_9, prop=C04, mode=U, kind=normal, tier=quick, unwind=20, { powf_h::<9>() });
harness!(name=c04_pow_f_1, prop=C04, mode=U, kind=normal, tier=quick, unwind=20, { powf_h::<1>() });
harness!(name=c04_mismatch_0, prop=C04, mode=U, kind=mustpanic, tier=quick, unwind=24, { mismatch(0) });
harness!(name=c04_mismatch_1, prop=C04, mode=U, kind=mustpanic, tier=quick, unwind=24, { mismatch(1) });
harness!(name=c04_mismatch_2, prop=C04, mode=U, kind=mustpanic, tier=quick, unwind=24, { mismatch(2) });
harness!(name=c04_mismatch_3, prop=C04, mode=U, kind=mustpanic, tier=quick, unwind=24, { mismatch(3) });
harness!(name=c04_mismatch_4, prop=C04, mode=U, kind=mustpanic, tier=quick, unwind=24, { mismatch(4) });
harness!(name=c04_mismatch_5, prop=C04, mode=U, kind=mustpanic, tier=quick, unwind=24, { mismatch(5) });
harness!(name=c04_mismatch_6, prop=C04, mode=U, kind=mustpanic, tier=quick, unwind=24, { mismatch(6) });
harness!(name=c04_mismatch_7, prop=C04, mode=U, kind=mustpanic, tier=quick, unwind=24, { mismatch(7) });
harness!(name=c04_red_0, prop=C04, mode=R, kind=normal, tier=quick, unwind=24, { red::<0>() });
harness!(name=c04_red_1, prop=C04, mode=R, kind=normal, tier=quick, unwind=24, { red::<1>() });
harness!(name=c04_red_2, prop=C04, mode=R, kind=normal, tier=quick, unwind=24, { red::<2>() });
harness!(name=c04_red_7, prop=C04, mode=R, kind=normal, tier=quick, unwind=24, { red::<7>() });
harness!(name=c04_red_8, prop=C04, mode=R, kind=normal, tier=quick, unwind=24, { red::<8>() });
harness!(name=c04_red_9, prop=C04, mode=R, kind=normal, tier=quick, unwind=24, { red::<9>() });
harness!(name=c04_red_17, prop=C04, mode=R, kind=normal, tier=thorough, unwind=24, { red::<17>() });
harness!(name=c04_infnorm_2x2, prop=C04, mode=R, kind=normal, tier=quick, unwind=20, { infnorm::<2, 2>() });
harness!(name=c04_infnorm_3x2, prop=C04, mode=R, kind=normal, tier=thorough, unwind=20, { infnorm::<3, 2>() });
harness!(name=c04_lse_1, prop=C04, mode=R, kind=normal, tier=quick, unwind=20, { lse::<1>() });
harness!(name=c04_lse_2, prop=C04, mode=R, kind=normal, tier=quick, unwind=20, { lse::<2>() });
harness!(name=c04_lse_3, prop=C04, mode=R, kind=normal, tier=quick, unwind=20, { lse::<3>() });
harness!(name=c04_lse_5, prop=C04, mode=R, kind=normal, tier=thorough, unwind=20, { lse::<5>() });
