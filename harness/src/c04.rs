//! C04 Element-wise arithmetic and maps are exact at every length and operand form.
use crate::rt::inp;
use crate::{harness, vassert, vassume, vbits, vclose, vle, vmustpanic};
use compute::linalg::*;

fn same<const L: usize>(v: &[f64], orig: &[f64; L], what: &'static str) {
    vassert!(v.len() == L, "{}: length {} != {}", what, v.len(), L);
    let mut i = 0;
    while i < L {
        vbits!(v[i], orig[i], "{} changed at {}", what, i);
        i += 1;
    }
}

macro_rules! vec_forms {
    ($fname:ident, $op:tt, $opa:tt) => {
        fn $fname<const L: usize>() {
            let a0: [f64; L] = inp::arr(0);
            let b0: [f64; L] = inp::arr(100);
            let s = inp::f64(200);
            let a = Vector::new(a0.to_vec());
            let b = Vector::new(b0.to_vec());
            let mut want = [0.0f64; L];
            let mut want_vs = [0.0f64; L];
            let mut want_sv = [0.0f64; L];
            let mut i = 0;
            while i < L {
                want[i] = a0[i] $op b0[i];
                want_vs[i] = a0[i] $op s;
                want_sv[i] = s $op a0[i];
                i += 1;
            }
            // vector ∘ vector, four ownership forms
            let r = &a $op &b;
            same(&r, &want, "&a op &b");
            same(&a, &a0, "lhs after &a op &b");
            same(&b, &b0, "rhs after &a op &b");
            let r = a.clone() $op b.clone();
            same(&r, &want, "a op b");
            let r = a.clone() $op &b;
            same(&r, &want, "a op &b");
            same(&b, &b0, "rhs after a op &b");
            let r = &a $op b.clone();
            same(&r, &want, "&a op b");
            same(&a, &a0, "lhs after &a op b");
            // compound assignment
            let mut c = a.clone();
            c $opa &b;
            same(&c, &want, "a op= &b");
            same(&b, &b0, "rhs after a op= &b");
            let mut c = a.clone();
            c $opa b.clone();
            same(&c, &want, "a op= b");
            // scalar on the right / left
            let r = &a $op s;
            same(&r, &want_vs, "&a op s");
            same(&a, &a0, "lhs after &a op s");
            let r = a.clone() $op s;
            same(&r, &want_vs, "a op s");
            let r = s $op &a;
            same(&r, &want_sv, "s op &a");
            same(&a, &a0, "rhs after s op &a");
            let r = s $op a.clone();
            same(&r, &want_sv, "s op a");
            let mut c = a.clone();
            c $opa s;
            same(&c, &want_vs, "a op= s");
        }
    };
}
vec_forms!(vec_add, +, +=);
vec_forms!(vec_sub, -, -=);
vec_forms!(vec_mul, *, *=);
vec_forms!(vec_div, /, /=);

harness!(name=c04_vec_add_0, prop=C04, mode=U, kind=normal, tier=quick, unwind=3, { vec_add::<0>() });
harness!(name=c04_vec_add_1, prop=C04, mode=U, kind=normal, tier=quick, unwind=4, { vec_add::<1>() });
harness!(name=c04_vec_sub_9, prop=C04, mode=U, kind=normal, tier=quick, unwind=12, { vec_sub::<9>() });
harness!(name=c04_vec_div_9, prop=C04, mode=U, kind=normal, tier=quick, unwind=12, { vec_div::<9>() });
