//! Native replay of a harness on concrete inputs extracted from a solver model.
//! usage: vhreplay <harness> <inputs-file>      (lines: `f <index> <hex bits>` / `u <index> <hex>`)
//! prints `RESULT: PASS | FAIL <what> | ASSUME <what> | PANIC <what> | NOHARNESS`
#[cfg(kani)]
fn main() {}

#[cfg(not(kani))]
fn main() {
    use std::panic;
    use vh::rt::native::{AssumeFailed, Fail, F, NOTES, U};
    let args: Vec<String> = std::env::args().collect();
    if args.len() < 3 {
        eprintln!("usage: vhreplay <harness> <inputs-file>");
        std::process::exit(2);
    }
    let text = std::fs::read_to_string(&args[2]).expect("inputs file");
    for line in text.lines() {
        let p: Vec<&str> = line.split_whitespace().collect();
        if p.len() != 3 {
            continue;
        }
        let k: u32 = p[1].parse().unwrap();
        let v = u64::from_str_radix(p[2].trim_start_matches("0x"), 16).unwrap();
        match p[0] {
            "f" => { F.with(|m| { m.borrow_mut().insert(k, v); }); alea::shim_load('f', k, v); }
            "u" => { U.with(|m| { m.borrow_mut().insert(k, v); }); alea::shim_load('u', k, v); }
            _ => {}
        }
    }
    panic::set_hook(Box::new(|_| {}));
    let name = args[1].clone();
    let r = panic::catch_unwind(move || vh::registry::run(&name));
    NOTES.with(|n| {
        for s in n.borrow().iter() {
            println!("NOTE: {}", s);
        }
    });
    match r {
        Ok(true) => println!("RESULT: PASS"),
        Ok(false) => println!("RESULT: NOHARNESS"),
        Err(e) => {
            if let Some(f) = e.downcast_ref::<Fail>() {
                println!("RESULT: FAIL {}", f.0);
            } else if let Some(a) = e.downcast_ref::<AssumeFailed>() {
                println!("RESULT: ASSUME {}", a.0);
            } else if let Some(s) = e.downcast_ref::<String>() {
                if s.starts_with("VH-ASSUME") {
                    println!("RESULT: ASSUME {}", s);
                } else {
                    println!("RESULT: PANIC {}", s);
                }
            } else if let Some(s) = e.downcast_ref::<&str>() {
                println!("RESULT: PANIC {}", s);
            } else {
                println!("RESULT: PANIC <non-string payload>");
            }
        }
    }
}
