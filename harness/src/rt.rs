//! Harness runtime: one harness body, two executions.
//!
//! * under Kani (`cfg(kani)`): inputs are applications of uninterpreted functions at constant
//!   indices (`__CPROVER_uninterpreted_in_f64(k)`), so they show up by name in the SMT-LIB
//!   verification condition and their values can be read back from a model; assertions are
//!   ordinary `assert!`s; markers are assertions on a reserved uninterpreted function so the
//!   driver can find their disjunct in the VC by text.
//! * natively (replay): inputs come from a table filled from the solver model; assertions carry
//!   the property's own floating-point tolerance; outcomes are reported through typed panics.

#[cfg(kani)]
extern "C" {
    fn __CPROVER_uninterpreted_in_f64(k: u32) -> f64;
    fn __CPROVER_uninterpreted_in_u64(k: u32) -> u64;
    fn __CPROVER_uninterpreted_marker(k: u32) -> u32;
    fn __CPROVER_uninterpreted_fabs(x: f64) -> f64;
    fn __CPROVER_uninterpreted_h_f1(id: u32, x: f64) -> f64;
    fn __CPROVER_uninterpreted_h_f2(id: u32, x: f64, y: f64) -> f64;
    static mut VH_RANGE_CHECKS: i32;
}

/// switch on the exp / log range obligations of ksmt/models.c for this harness (overflow of an exponential,
/// logarithm of an underflowed sum); no effect natively
pub fn range_checks_on() {
    #[cfg(kani)]
    unsafe {
        VH_RANGE_CHECKS = 1;
    }
}

/// "any function": an uninterpreted f64 -> f64 function number `id` (natively a fixed smooth,
/// non-polynomial function per id so that replays are meaningful)
#[inline(never)]
pub fn hf(id: u32, x: f64) -> f64 {
    #[cfg(kani)]
    unsafe {
        __CPROVER_uninterpreted_h_f1(id, x)
    }
    #[cfg(not(kani))]
    {
        let k = id as f64 + 1.0;
        (k * x).sin() + 0.25 * k * x * x - (0.3 * x).exp() / k
    }
}
/// the gamma function as an uninterpreted symbol (C02: normalising constants; natively the crate's gamma)
#[inline(never)]
pub fn gamma_uf(x: f64) -> f64 {
    #[cfg(kani)]
    unsafe {
        __CPROVER_uninterpreted_h_f1(1000, x)
    }
    #[cfg(not(kani))]
    {
        compute::functions::gamma(x)
    }
}
#[inline(never)]
pub fn hf2(id: u32, x: f64, y: f64) -> f64 {
    #[cfg(kani)]
    unsafe {
        __CPROVER_uninterpreted_h_f2(id, x, y)
    }
    #[cfg(not(kani))]
    {
        let k = id as f64 + 1.0;
        (k * x + y).sin() + 0.25 * x * y - k * y * y
    }
}

pub const MARK_END: u32 = 0x0E0D_0E0D;
pub const MARK_CALL: u32 = 0x0CA1_0CA1;
pub const MARK_UNREACH: u32 = 0x0DEA_D0DE;

#[cfg(not(kani))]
pub mod native {
    use std::cell::RefCell;
    use std::collections::HashMap;
    thread_local! {
        pub static F: RefCell<HashMap<u32, u64>> = RefCell::new(HashMap::new());
        pub static U: RefCell<HashMap<u32, u64>> = RefCell::new(HashMap::new());
        pub static NOTES: RefCell<Vec<String>> = RefCell::new(Vec::new());
    }
    #[derive(Debug)]
    pub struct Fail(pub String);
    #[derive(Debug)]
    pub struct AssumeFailed(pub String);
    pub fn note(s: String) {
        NOTES.with(|n| n.borrow_mut().push(s));
    }
}

pub mod inp {
    /// arbitrary f64 (any bit pattern in B; any real in R; opaque in U)
    #[inline(never)]
    pub fn f64(k: u32) -> f64 {
        #[cfg(kani)]
        unsafe {
            super::__CPROVER_uninterpreted_in_f64(k)
        }
        #[cfg(not(kani))]
        {
            super::native::F.with(|m| f64::from_bits(*m.borrow().get(&k).unwrap_or(&0)))
        }
    }
    #[inline(never)]
    pub fn u64(k: u32) -> u64 {
        #[cfg(kani)]
        unsafe {
            super::__CPROVER_uninterpreted_in_u64(k)
        }
        #[cfg(not(kani))]
        {
            super::native::U.with(|m| *m.borrow().get(&k).unwrap_or(&0))
        }
    }
    pub fn i64(k: u32) -> i64 {
        u64(k) as i64
    }
    pub fn usize(k: u32) -> usize {
        u64(k) as usize
    }
    pub fn i32(k: u32) -> i32 {
        u64(k) as u32 as i32
    }
    pub fn bool(k: u32) -> bool {
        u64(k) & 1 == 1
    }
    /// N consecutive f64 inputs starting at index `base`
    pub fn arr<const N: usize>(base: u32) -> [f64; N] {
        let mut a = [0.0; N];
        let mut i = 0;
        while i < N {
            a[i] = f64(base + i as u32);
            i += 1;
        }
        a
    }
    pub fn vec(base: u32, n: usize) -> Vec<f64> {
        let mut v = Vec::with_capacity(n);
        let mut i = 0;
        while i < n {
            v.push(f64(base + i as u32));
            i += 1;
        }
        v
    }
}

/// |x| as the solver-visible operation (fp.abs in B, ite in R, UF in U)
#[inline(never)]
pub fn fabs(x: f64) -> f64 {
    #[cfg(kani)]
    unsafe {
        __CPROVER_uninterpreted_fabs(x)
    }
    #[cfg(not(kani))]
    {
        x.abs()
    }
}

/// Markers: each is its own function so that CBMC gives each its own property (and its own
/// disjunct in the VC, recognisable by the mangled local-variable name in its conclusion).
#[inline(never)]
pub fn mark_end() {
    #[cfg(kani)]
    unsafe {
        let r = __CPROVER_uninterpreted_marker(MARK_END);
        assert!(r == 0);
    }
}
#[inline(never)]
pub fn mark_call() {
    #[cfg(kani)]
    unsafe {
        let r = __CPROVER_uninterpreted_marker(MARK_CALL);
        assert!(r == 0);
    }
}
#[inline(never)]
pub fn mark_unreach() {
    #[cfg(kani)]
    unsafe {
        let r = __CPROVER_uninterpreted_marker(MARK_UNREACH);
        assert!(r == 0);
    }
}

/// Obligations are accumulated and asserted once, after the END marker: a Kani `assert!` is
/// `assert; assume`, which would make "harness end reachable" mean "all obligations satisfiable".
///
/// Two accumulators: VH_OK holds the obligations as stated for the symbolic interpretation (exact
/// equalities); VH_OK_TOL holds the same obligations with the property's floating-point tolerance. The
/// driver decides with the first and, when that is sat, asks for a model of the second so that the
/// counterexample is one that also fails natively (a violation larger than the tolerance).
#[cfg(kani)]
static mut VH_OK: bool = true;
#[cfg(kani)]
static mut VH_OK_TOL: bool = true;
#[cfg(kani)]
pub fn record(c: bool) {
    unsafe {
        VH_OK = VH_OK & c;
        VH_OK_TOL = VH_OK_TOL & c;
    }
}
#[cfg(kani)]
pub fn record2(exact: bool, within_tol: bool) {
    unsafe {
        VH_OK = VH_OK & exact;
        VH_OK_TOL = VH_OK_TOL & within_tol;
    }
}
#[cfg(kani)]
#[inline(never)]
fn fin_exact() {
    unsafe {
        let ok_exact = VH_OK;
        assert!(ok_exact);
    }
}
#[cfg(kani)]
#[inline(never)]
fn fin_tol() {
    unsafe {
        let ok_tol = VH_OK_TOL;
        assert!(ok_tol);
    }
}
pub fn finish() {
    mark_end();
    #[cfg(kani)]
    {
        // exact first: its VC covers every violation. fin_tol's own VC is never used as such (it is guarded
        // by the assumed exact obligations); the driver combines fin_exact's path condition with fin_tol's
        // conclusion to ask for a violation that exceeds the tolerance.
        fin_exact();
        fin_tol();
    }
}

pub fn assume(_c: bool, _what: &'static str) {
    #[cfg(kani)]
    kani::assume(_c);
    #[cfg(not(kani))]
    if !_c {
        std::panic::panic_any(native::AssumeFailed(_what.to_string()));
    }
}

#[cfg(not(kani))]
pub fn fail(what: String) -> ! {
    std::panic::panic_any(native::Fail(what))
}

/// exact obligation: same condition symbolically and natively
#[macro_export]
macro_rules! vassert {
    ($c:expr, $($what:tt)+) => {{
        #[cfg(kani)]
        { $crate::rt::record($c); }
        #[cfg(not(kani))]
        { if !($c) { $crate::rt::fail(format!($($what)+)); } }
    }};
}

/// equality obligation: exact under the symbolic interpretation, `tol` (absolute) natively.
#[macro_export]
macro_rules! vclose {
    ($a:expr, $b:expr, $tol:expr, $($what:tt)+) => {{
        let a__: f64 = $a;
        let b__: f64 = $b;
        #[cfg(kani)]
        {
            let t__: f64 = $tol;
            let d__ = a__ - b__;
            $crate::rt::record2(a__ == b__, d__ <= t__ && -d__ <= t__);
        }
        #[cfg(not(kani))]
        {
            let t__: f64 = $tol;
            if !b__.is_finite() || !t__.is_finite() {
                std::panic::panic_any($crate::rt::native::AssumeFailed(format!("reference value not finite: {}", format!($($what)+))));
            }
            let ok = a__.is_finite() && (a__ - b__).abs() <= t__;
            if !ok { $crate::rt::fail(format!("{}: got {:e} want {:e} tol {:e}", format!($($what)+), a__, b__, t__)); }
        }
    }};
}

/// `a <= b` symbolically, `a <= b + slack` natively
#[macro_export]
macro_rules! vle {
    ($a:expr, $b:expr, $slack:expr, $($what:tt)+) => {{
        let a__: f64 = $a;
        let b__: f64 = $b;
        #[cfg(kani)]
        {
            let t__: f64 = $slack;
            $crate::rt::record2(a__ <= b__, a__ <= b__ + t__);
        }
        #[cfg(not(kani))]
        {
            let t__: f64 = $slack;
            if !(a__ <= b__ + t__) { $crate::rt::fail(format!("{}: {:e} > {:e} (+{:e})", format!($($what)+), a__, b__, t__)); }
        }
    }};
}

/// same IEEE value at a position: bit-identical, or both NaN (payloads are not compared)
#[macro_export]
macro_rules! vbits {
    ($a:expr, $b:expr, $($what:tt)+) => {{
        let a__: f64 = $a;
        let b__: f64 = $b;
        $crate::vassert!(a__.to_bits() == b__.to_bits() || (a__.is_nan() && b__.is_nan()), "{}: got {:e} ({:#x}) want {:e} ({:#x})", format!($($what)+), a__, a__.to_bits(), b__, b__.to_bits());
    }};
}

#[macro_export]
macro_rules! vassume {
    ($c:expr) => {
        $crate::rt::assume($c, stringify!($c))
    };
}

/// the expression must panic. Symbolically: the point after it is unreachable.
#[macro_export]
macro_rules! vmustpanic {
    ($e:expr, $($what:tt)+) => {{
        #[cfg(kani)]
        {
            $crate::rt::mark_call();
            let _ = $e;
            $crate::rt::mark_unreach();
        }
        #[cfg(not(kani))]
        {
            let r = std::panic::catch_unwind(std::panic::AssertUnwindSafe(|| { let _ = $e; }));
            if r.is_ok() { $crate::rt::fail(format!("did not panic: {}", format!($($what)+))); }
        }
    }};
}

#[macro_export]
macro_rules! vnote {
    ($($what:tt)+) => {{
        #[cfg(not(kani))]
        { $crate::rt::native::note(format!($($what)+)); }
    }};
}

/// Declares a harness. `prop`, `mode`, `kind`, `tier` are read by the driver from the source text
/// (tier: quick | thorough | rot0..rot2 = in the quick tier when VERIF_SEED % 3 matches, always in thorough).
#[macro_export]
macro_rules! harness {
    (name=$name:ident, prop=$p:ident, mode=$m:ident, kind=$k:ident, tier=$t:ident, unwind=$u:expr, $body:block) => {
        #[cfg_attr(kani, kani::proof)]
        #[cfg_attr(kani, kani::unwind($u))]
        #[cfg_attr(kani, kani::stub(compute::linalg::is_square, $crate::stubs::is_square))]
        #[cfg_attr(kani, kani::stub(f64::abs, $crate::rt::fabs))]
        pub fn $name() {
            $body;
            $crate::rt::finish();
        }
    };
}

/// Same as `harness!`, with `compute::functions::gamma` replaced by an uninterpreted function.
#[macro_export]
macro_rules! harness_g {
    (name=$name:ident, prop=$p:ident, mode=$m:ident, kind=$k:ident, tier=$t:ident, unwind=$u:expr, $body:block) => {
        #[cfg_attr(kani, kani::proof)]
        #[cfg_attr(kani, kani::unwind($u))]
        #[cfg_attr(kani, kani::stub(compute::linalg::is_square, $crate::stubs::is_square))]
        #[cfg_attr(kani, kani::stub(f64::abs, $crate::rt::fabs))]
        #[cfg_attr(kani, kani::stub(compute::prelude::gamma, $crate::rt::gamma_uf))]
        pub fn $name() {
            $body;
            $crate::rt::finish();
        }
    };
}

/// Same as `harness!`, with `compute::linalg::solve` and `compute::linalg::invert_matrix` replaced by their
/// contracts (`stubs::solve_contract`, `stubs::invert_contract`).
#[macro_export]
macro_rules! harness_s {
    (name=$name:ident, prop=$p:ident, mode=$m:ident, kind=$k:ident, tier=$t:ident, unwind=$u:expr, $body:block) => {
        #[cfg_attr(kani, kani::proof)]
        #[cfg_attr(kani, kani::unwind($u))]
        #[cfg_attr(kani, kani::stub(compute::linalg::is_square, $crate::stubs::is_square))]
        #[cfg_attr(kani, kani::stub(f64::abs, $crate::rt::fabs))]
        #[cfg_attr(kani, kani::stub(compute::linalg::solve, $crate::stubs::solve_contract))]
        #[cfg_attr(kani, kani::stub(compute::linalg::invert_matrix, $crate::stubs::invert_contract))]
        pub fn $name() {
            $body;
            $crate::rt::finish();
        }
    };
}
