//! C11 Factorisations reconstruct the input and have the promised structure.
use crate::rt::{fabs, inp};
use crate::{harness, vassert, vassume, vbits, vclose, vle, vmustpanic};
use compute::linalg::*;

fn amax(v: &[f64]) -> f64 {
    let mut s: f64 = 1.0;
    for x in v {
        s = s.max(x.abs());
    }
    s
}
fn bounded(v: &[f64], m: f64) {
    for x in v {
        vassume!(*x >= -m && *x <= m);
    }
}
/// symmetric NxN matrix from N(N+1)/2 inputs
fn sym<const N: usize>(base: u32) -> Vec<f64> {
    let mut a = vec![0.0; N * N];
    let mut k = base;
    let mut i = 0;
    while i < N {
        let mut j = 0;
        while j <= i {
            let x = inp::f64(k);
            k += 1;
            a[i * N + j] = x;
            a[j * N + i] = x;
            j += 1;
        }
        i += 1;
    }
    a
}
fn det2(a: &[f64]) -> f64 {
    a[0] * a[3] - a[1] * a[2]
}
fn det3(a: &[f64]) -> f64 {
    a[0] * (a[4] * a[8] - a[5] * a[7]) - a[1] * (a[3] * a[8] - a[5] * a[6]) + a[2] * (a[3] * a[7] - a[4] * a[6])
}
fn minors_positive<const N: usize>(a: &[f64]) -> bool {
    let m1 = a[0] > 0.0;
    if N == 1 {
        return m1;
    }
    let m2 = a[0] * a[N + 1] - a[1] * a[N] > 0.0;
    if N == 2 {
        return m1 && m2;
    }
    m1 && m2 && det3(a) > 0.0
}

// @bound c11_chol_: order N <= 3 (instance), every symmetric A with positive leading principal minors, entries in ±1e3
// @claim c11_chol_: cholesky(A) is lower triangular with positive diagonal and L L^T = A; Matrix::cholesky returns the same factor (R, sqrt axiom)
pub fn chol<const N: usize>() {
    let a = sym::<N>(0);
    bounded(&a, 1.0e3);
    vassume!(minors_positive::<N>(&a));
    let l = cholesky(&a);
    vassert!(l.len() == N * N, "factor length {}", l.len());
    let tol = 1e-8 * amax(&a);
    let mut i = 0;
    while i < N {
        vassert!(l[i * N + i] > 0.0, "diagonal {} not positive: {:e}", i, l[i * N + i]);
        let mut j = 0;
        while j < N {
            if j > i {
                vassert!(l[i * N + j] == 0.0, "entry ({},{}) above the diagonal is {:e}", i, j, l[i * N + j]);
            }
            let mut s = 0.0;
            let mut k = 0;
            while k < N {
                s += l[i * N + k] * l[j * N + k];
                k += 1;
            }
            vclose!(s, a[i * N + j], tol, "L L^T entry ({},{})", i, j);
            j += 1;
        }
        i += 1;
    }
    let lm = Matrix::new(a.clone(), N as i32, N as i32).cholesky();
    let mut i = 0;
    while i < N * N {
        vclose!(lm.data[i], l[i], tol, "Matrix::cholesky entry {}", i);
        i += 1;
    }
}
harness!(name=c11_chol_1, prop=C11, mode=R, kind=normal, tier=quick, unwind=20, { chol::<1>() });
harness!(name=c11_chol_2, prop=C11, mode=R, kind=normal, tier=quick, unwind=20, { chol::<2>() });
// @cap c11_chol_3: 200
harness!(name=c11_chol_3, prop=C11, mode=R, kind=normal, tier=thorough, unwind=20, { chol::<3>() });

// @claim c11_chol_reject_: a symmetric matrix with positive diagonal that is not positive definite is rejected by a panic (slice and Matrix forms)
fn chol_reject<const N: usize>(matrix_form: bool) {
    let a = sym::<N>(0);
    bounded(&a, 1.0e3);
    let mut i = 0;
    while i < N {
        vassume!(a[i * N + i] > 0.0);
        i += 1;
    }
    vassume!(!minors_positive::<N>(&a));
    if matrix_form {
        vmustpanic!(Matrix::new(a.clone(), N as i32, N as i32).cholesky(), "not positive definite");
    } else {
        vmustpanic!(cholesky(&a), "not positive definite");
    }
}
harness!(name=c11_chol_reject_2, prop=C11, mode=R, kind=mustpanic, tier=quick, unwind=20, { chol_reject::<2>(false) });
harness!(name=c11_chol_reject_2m, prop=C11, mode=R, kind=mustpanic, tier=quick, unwind=20, { chol_reject::<2>(true) });
harness!(name=c11_chol_reject_3, prop=C11, mode=R, kind=mustpanic, tier=thorough, unwind=20, { chol_reject::<3>(false) });

// @bound c11_lu_: order N <= 3 (instance; N = 2 split into the two pivot outcomes, N = 3 into the six resulting pivot vectors), every real A including singular ones, entries in ±1e3
// @claim c11_lu_: pivots are a permutation, L is unit lower triangular with |l_ij| <= 1, U upper triangular, P A = L U; Matrix::lu returns identical factors and pivots (R)
/// pivot case split (the solver needs the comparison outcomes fixed to finish): for N = 2 case 1 = no row
/// swap (|a00| >= |a10|), case 2 = swap; for N = 3 the case is the resulting pivot vector (6 permutations,
/// assumed on the output); case 0 = no assumption. The cases are exhaustive.
fn pivot_case<const N: usize>(a: &[f64], case: u8) {
    if N == 2 && case == 1 {
        vassume!(fabs(a[0]) >= fabs(a[2]));
    } else if N == 2 && case == 2 {
        vassume!(fabs(a[0]) < fabs(a[2]));
    }
}
const PERMS3: [[i32; 3]; 6] = [[0, 1, 2], [0, 2, 1], [1, 0, 2], [1, 2, 0], [2, 0, 1], [2, 1, 0]];
pub fn lu_h<const N: usize>(case: u8) {
    let a = inp::vec(0, N * N);
    bounded(&a, 1.0e3);
    pivot_case::<N>(&a, case);
    let (f, p) = lu(&a);
    if N == 3 && case >= 1 {
        let w = PERMS3[(case - 1) as usize];
        vassume!(p.len() == 3 && p[0] == w[0] && p[1] == w[1] && p[2] == w[2]);
    }
    vassert!(f.len() == N * N && p.len() == N, "lu output sizes {} {}", f.len(), p.len());
    // permutation
    let mut i = 0;
    while i < N {
        vassert!(p[i] >= 0 && (p[i] as usize) < N, "pivot {} out of range", p[i]);
        let mut j = 0;
        while j < i {
            vassert!(p[i] != p[j], "pivots repeat");
            j += 1;
        }
        i += 1;
    }
    let tol = 1e-7 * amax(&a) * amax(&a);
    let mut i = 0;
    while i < N {
        let r = p[i] as usize;
        let mut j = 0;
        while j < N {
            if j < i {
                vle!(fabs(f[i * N + j]), 1.0, 1e-12, "|l({},{})| <= 1", i, j);
            }
            // (L U)(i,j) with L unit lower, U upper, both packed in f
            let mut s = 0.0;
            let mut k = 0;
            while k < N {
                let l = if k < i { f[i * N + k] } else if k == i { 1.0 } else { 0.0 };
                let u = if k <= j { f[k * N + j] } else { 0.0 };
                s += l * u;
                k += 1;
            }
            if r < N {
                vclose!(s, a[r * N + j], tol, "(LU)({},{}) = (PA)({},{})", i, j, i, j);
            }
            j += 1;
        }
        i += 1;
    }
    let (fm, pm) = Matrix::new(a.clone(), N as i32, N as i32).lu();
    let mut i = 0;
    while i < N * N {
        vclose!(fm.data[i], f[i], tol, "Matrix::lu entry {}", i);
        i += 1;
    }
    let mut i = 0;
    while i < N {
        vassert!(pm[i] == p[i], "Matrix::lu pivot {}", i);
        i += 1;
    }
}
// @bound c11_lutwin_: order N (instance, 2..4), every bit pattern of A (floating-point operations and comparisons opaque, U): no pivot case split is needed because both implementations must take the same decisions on the same values
// @claim c11_lutwin_: Matrix::lu and the slice function lu perform the same operations: their packed factors are bit-identical and their pivot vectors equal for every input (U). Together with c11_lu_ (P A = L U for the slice function) this carries the factorisation obligations over to the Matrix method at every order where the twin is decided
// @modes c11_lutwin_: U
// @cap c11_lutwin_: 120
fn lutwin<const N: usize>() {
    let a = inp::vec(0, N * N);
    let (f, p) = lu(&a);
    let (fm, pm) = Matrix::new(a.clone(), N as i32, N as i32).lu();
    vassert!(f.len() == N * N && fm.data.len() == N * N && p.len() == N && pm.len() == N, "lu output sizes");
    let mut i = 0;
    while i < N * N {
        vbits!(fm.data[i], f[i], "Matrix::lu entry {} differs from lu", i);
        i += 1;
    }
    let mut i = 0;
    while i < N {
        vassert!(pm[i] == p[i], "Matrix::lu pivot {}: {} vs {}", i, pm[i], p[i]);
        i += 1;
    }
}
harness!(name=c11_lutwin_2, prop=C11, mode=U, kind=normal, tier=quick, unwind=20, { lutwin::<2>() });
harness!(name=c11_lutwin_3, prop=C11, mode=U, kind=normal, tier=thorough, unwind=20, { lutwin::<3>() });
harness!(name=c11_lutwin_4, prop=C11, mode=U, kind=normal, tier=thorough, unwind=20, { lutwin::<4>() });
// @cap c11_lu_: 120
// @cap c11_det_: 150
harness!(name=c11_lu_1, prop=C11, mode=R, kind=normal, tier=quick, unwind=20, { lu_h::<1>(0) });
harness!(name=c11_lu_2_noswap, prop=C11, mode=R, kind=normal, tier=quick, unwind=20, { lu_h::<2>(1) });
harness!(name=c11_lu_2_swap, prop=C11, mode=R, kind=normal, tier=quick, unwind=20, { lu_h::<2>(2) });
harness!(name=c11_lu_3_p012, prop=C11, mode=R, kind=normal, tier=thorough, unwind=20, { lu_h::<3>(1) });
harness!(name=c11_lu_3_p021, prop=C11, mode=R, kind=normal, tier=thorough, unwind=20, { lu_h::<3>(2) });
harness!(name=c11_lu_3_p102, prop=C11, mode=R, kind=normal, tier=thorough, unwind=20, { lu_h::<3>(3) });
harness!(name=c11_lu_3_p120, prop=C11, mode=R, kind=normal, tier=thorough, unwind=20, { lu_h::<3>(4) });
harness!(name=c11_lu_3_p201, prop=C11, mode=R, kind=normal, tier=thorough, unwind=20, { lu_h::<3>(5) });
harness!(name=c11_lu_3_p210, prop=C11, mode=R, kind=normal, tier=thorough, unwind=20, { lu_h::<3>(6) });

// @claim c11_det_: det / lu_det equal the explicit determinant polynomial (R)
pub fn det_h<const N: usize>(case: u8) {
    let a = inp::vec(0, N * N);
    bounded(&a, 1.0e3);
    pivot_case::<N>(&a, case);
    let want = if N == 1 { a[0] } else if N == 2 { det2(&a) } else { det3(&a) };
    let m = Matrix::new(a.clone(), N as i32, N as i32);
    let sc = amax(&a);
    vclose!(m.det(), want, 1e-7 * sc * sc * sc, "Matrix::det order {}", N);
    let (f, p) = m.lu();
    vclose!(f.lu_det(&p), want, 1e-7 * sc * sc * sc, "lu_det order {}", N);
}
harness!(name=c11_det_1, prop=C11, mode=R, kind=normal, tier=quick, unwind=20, { det_h::<1>(0) });
harness!(name=c11_det_2_noswap, prop=C11, mode=R, kind=normal, tier=thorough, unwind=20, { det_h::<2>(1) });
harness!(name=c11_det_2_swap, prop=C11, mode=R, kind=normal, tier=thorough, unwind=20, { det_h::<2>(2) });
harness!(name=c11_det_3, prop=C11, mode=R, kind=normal, tier=thorough, unwind=20, { det_h::<3>(0) });

// @cap c11_parity_: 120
// @bound c11_parity_: permutation vectors of length N <= 6 (instance), symbolic entries constrained to be a permutation (bit-precise integers)
// @claim c11_parity_: ipiv_parity = (-1)^(number of inversions) (B)
fn parity<const N: usize>() {
    let mut p = [0i32; N];
    let mut i = 0;
    while i < N {
        p[i] = inp::i32(i as u32);
        vassume!(p[i] >= 0 && (p[i] as usize) < N);
        let mut j = 0;
        while j < i {
            vassume!(p[i] != p[j]);
            j += 1;
        }
        i += 1;
    }
    let mut inv = 0;
    let mut i = 0;
    while i < N {
        let mut j = i + 1;
        while j < N {
            if p[i] > p[j] {
                inv += 1;
            }
            j += 1;
        }
        i += 1;
    }
    let want = if inv % 2 == 0 { 1 } else { -1 };
    let got = ipiv_parity(&p);
    vassert!(got == want, "ipiv_parity({:?}) = {} want {}", p, got, want);
}
harness!(name=c11_parity_1, prop=C11, mode=B, kind=normal, tier=quick, unwind=3, { parity::<1>() });
harness!(name=c11_parity_2, prop=C11, mode=B, kind=normal, tier=quick, unwind=4, { parity::<2>() });
harness!(name=c11_parity_3, prop=C11, mode=B, kind=normal, tier=quick, unwind=5, { parity::<3>() });
harness!(name=c11_parity_4, prop=C11, mode=B, kind=normal, tier=quick, unwind=6, { parity::<4>() });
harness!(name=c11_parity_5, prop=C11, mode=B, kind=normal, tier=quick, unwind=7, { parity::<5>() });
harness!(name=c11_parity_6, prop=C11, mode=B, kind=normal, tier=thorough, unwind=8, { parity::<6>() });

// @bound c11_tri_: order N <= 3, symbolic triangular systems with nonzero diagonal
// @claim c11_tri_: forward/backward substitution, cholesky_solve and lu_solve (slice and Matrix forms) invert their systems (R)
pub fn tri<const N: usize>() {
    let mut l = inp::vec(0, N * N);
    let b = inp::vec(100, N);
    bounded(&l, 1.0e3);
    bounded(&b, 1.0e3);
    let mut i = 0;
    while i < N {
        let d = l[i * N + i];
        vassume!(d >= 1.0e-3 || d <= -1.0e-3);
        let mut j = i + 1;
        while j < N {
            l[i * N + j] = 0.0;
            j += 1;
        }
        i += 1;
    }
    let tol = 1e-6 * amax(&l) * amax(&b);
    // L x = b
    let x = forward_substitution(&l, &b);
    let mut i = 0;
    while i < N {
        let mut s = 0.0;
        let mut k = 0;
        while k <= i {
            s += l[i * N + k] * x[k];
            k += 1;
        }
        vclose!(s, b[i], tol, "forward substitution row {}", i);
        i += 1;
    }
    // U x = b with U = L^T
    let u = transpose(&l, N);
    let y = backward_substitution(&u, &b);
    let mut i = 0;
    while i < N {
        let mut s = 0.0;
        let mut k = i;
        while k < N {
            s += u[i * N + k] * y[k];
            k += 1;
        }
        vclose!(s, b[i], tol, "backward substitution row {}", i);
        i += 1;
    }
    // Matrix forms agree
    let lm = Matrix::new(l.clone(), N as i32, N as i32);
    let xm = lm.forward_substitution(&b);
    let um = Matrix::new(u.clone(), N as i32, N as i32);
    let ym = um.backward_substitution(&b);
    let mut i = 0;
    while i < N {
        vclose!(xm[i], x[i], tol, "Matrix::forward_substitution {}", i);
        vclose!(ym[i], y[i], tol, "Matrix::backward_substitution {}", i);
        i += 1;
    }
    // cholesky_solve: (L L^T) z = b
    let z = cholesky_solve(&l, &b);
    let zm = lm.cholesky_solve(&Vector::new(b.clone()));
    let mut i = 0;
    while i < N {
        // row i of L L^T z
        let mut s = 0.0;
        let mut j = 0;
        while j < N {
            let mut a = 0.0;
            let mut k = 0;
            while k < N {
                a += l[i * N + k] * l[j * N + k];
                k += 1;
            }
            s += a * z[j];
            j += 1;
        }
        vclose!(s, b[i], tol * amax(&l), "cholesky_solve row {}", i);
        vclose!(zm[i], z[i], tol, "Matrix::cholesky_solve {}", i);
        i += 1;
    }
}
harness!(name=c11_tri_1, prop=C11, mode=R, kind=normal, tier=quick, unwind=20, { tri::<1>() });
harness!(name=c11_tri_2, prop=C11, mode=R, kind=normal, tier=quick, unwind=20, { tri::<2>() });
harness!(name=c11_tri_3, prop=C11, mode=R, kind=normal, tier=thorough, unwind=20, { tri::<3>() });

// @claim c11_lusolve_: lu_solve with a packed factorisation and a given permutation solves P^T L U x = b (slice and Matrix forms) (R)
pub fn lusolve<const N: usize>(perm: [i32; N]) {
    let f = inp::vec(0, N * N);
    let b = inp::vec(100, N);
    bounded(&f, 1.0e3);
    bounded(&b, 1.0e3);
    let mut i = 0;
    while i < N {
        let d = f[i * N + i];
        vassume!(d >= 1.0e-3 || d <= -1.0e-3);
        i += 1;
    }
    let x = lu_solve(&f, &perm, &b);
    let xm = Matrix::new(f.clone(), N as i32, N as i32).lu_solve(&perm, &Vector::new(b.clone()));
    let tol = 1e-5 * amax(&f) * amax(&f) * amax(&b);
    // (L U x)(i) = b[perm[i]]
    let mut i = 0;
    while i < N {
        let mut s = 0.0;
        let mut j = 0;
        while j < N {
            let mut lu = 0.0;
            let mut k = 0;
            while k < N {
                let l = if k < i { f[i * N + k] } else if k == i { 1.0 } else { 0.0 };
                let u = if k <= j { f[k * N + j] } else { 0.0 };
                lu += l * u;
                k += 1;
            }
            s += lu * x[j];
            j += 1;
        }
        vclose!(s, b[perm[i] as usize], tol, "lu_solve row {}", i);
        vclose!(xm[i], x[i], tol, "Matrix::lu_solve {}", i);
        i += 1;
    }
}
harness!(name=c11_lusolve_1, prop=C11, mode=R, kind=normal, tier=quick, unwind=20, { lusolve::<1>([0]) });
harness!(name=c11_lusolve_2a, prop=C11, mode=R, kind=normal, tier=quick, unwind=20, { lusolve::<2>([0, 1]) });
harness!(name=c11_lusolve_2b, prop=C11, mode=R, kind=normal, tier=quick, unwind=20, { lusolve::<2>([1, 0]) });
harness!(name=c11_lusolve_3a, prop=C11, mode=R, kind=normal, tier=thorough, unwind=20, { lusolve::<3>([2, 0, 1]) });
harness!(name=c11_lusolve_3b, prop=C11, mode=R, kind=normal, tier=thorough, unwind=20, { lusolve::<3>([1, 2, 0]) });

// @claim c11_det_symindef: the determinant of a symmetric, positive-diagonal, indefinite 2x2 matrix is computed (no panic) and equals a00 a11 - a01^2 (R)
harness!(name=c11_det_symindef, prop=C11, mode=R, kind=normal, tier=quick, unwind=20, {
    let (a, b, d) = (inp::f64(0), inp::f64(1), inp::f64(2));
    vassume!(a >= 0.1 && a <= 10.0 && d >= 0.1 && d <= 10.0 && b >= -10.0 && b <= 10.0);
    vassume!(a * d - b * b <= -0.01);
    vassume!(fabs(a) >= fabs(b));
    let m = Matrix::new(vec![a, b, b, d], 2, 2);
    vclose!(m.det(), a * d - b * b, 1e-7, "determinant of a symmetric indefinite matrix");
});
