//! C09 Special functions - the sub-clauses a solver can decide (structure, range, symmetry). The accuracy
//! figures of the property (1e-13, 1e-12, 1e-10, 1.5e-7 against the true transcendental functions) are NOT
//! decided here: no semantics for the true functions is available to the solvers in this image.
use crate::rt::{fabs, inp};
use crate::{harness, vassert, vassume, vbits, vclose, vle};
use compute::functions::*;

// @claim c09_erf_odd: erf(-x) = -erf(x) bit for bit for every non-NaN x (float operations uninterpreted: the negative branch is literally -erf(-x)) (U)
harness!(name=c09_erf_odd, prop=C09, mode=U, kind=normal, tier=quick, unwind=4, {
    let x = inp::f64(0);
    vassume!(x > 0.0);
    vbits!(erf(-x), -erf(x), "erf is odd at {:e}", x);
});
// @axioms c09_erf_bound: exp_pos exp_mono
// @claim c09_erf_bound: |erf(x)| <= 1 for every real x (R: with t = 1/(1+px) in (0,1] and e = exp(-x^2) in (0,1] the polynomial factor lies in [0,1])
harness!(name=c09_erf_bound, prop=C09, mode=R, kind=normal, tier=quick, unwind=4, {
    let x = inp::f64(0);
    vassume!(x >= -40.0 && x <= 40.0);
    let e = erf(x);
    vle!(fabs(e), 1.0, 1e-12, "|erf({:e})| <= 1", x);
    if x >= 0.0 {
        vassert!(e >= -1e-12, "erf negative for non-negative argument");
    }
});
// @claim c09_beta_sym: beta(a,b) = beta(b,a) = gamma(a) gamma(b) / gamma(a+b) as computed by the crate's gamma (R; a, b in (1e-3, 80) on the Lanczos branch a, b >= 1/2)
harness!(name=c09_beta_sym, prop=C09, mode=R, kind=normal, tier=thorough, unwind=18, {
    let (a, b) = (inp::f64(0), inp::f64(1));
    vassume!(a >= 0.5 && a <= 80.0 && b >= 0.5 && b <= 80.0);
    let v = beta(a, b);
    vclose!(beta(b, a), v, 1e-12 * (1.0 + fabs(v)), "beta symmetry");
    let w = gamma(a) * gamma(b) / gamma(a + b);
    vclose!(v, w, 1e-12 * (1.0 + fabs(w)), "beta = GG/G");
});
// @claim c09_digamma_rec: digamma(x+1) = digamma(x) + 1/x for 0 < x < 5 (both sides reach the same asymptotic evaluation; R)
harness!(name=c09_digamma_rec, prop=C09, mode=R, kind=normal, tier=quick, unwind=12, {
    let x = inp::f64(0);
    vassume!(x >= 1.0e-3 && x < 5.0);
    let d = digamma(x);
    vclose!(digamma(x + 1.0), d + 1.0 / x, 1e-9 * (1.0 + fabs(d)), "digamma recurrence at {:e}", x);
});
// @cap c09_gamma_: 150
// @claim c09_gamma_reflect: for z < 1/2 the reflection formula pi / (sin(pi z) Gamma(1-z)) is what gamma computes (R, sin uninterpreted)
harness!(name=c09_gamma_reflect, prop=C09, mode=R, kind=normal, tier=quick, unwind=18, {
    let z = inp::f64(0);
    vassume!(z > -20.0 && z < 0.5);
    let g = gamma(z);
    let w = std::f64::consts::PI / ((std::f64::consts::PI * z).sin() * gamma(1.0 - z));
    vclose!(g, w, 1e-12 * (1.0 + fabs(w)), "gamma reflection at {:e}", z);
});
// @bound c09_gamma_range: arguments in [1/2, 171] (true Gamma finite: Gamma(171) = 170! < f64::MAX)
// @claim c09_gamma_range: no intermediate power overflows: for every z in [1/2, 171] each pow(t, e) inside gamma has e ln t <= 709.78 (obligation in the pow model with ln bounded below on [148, inf) by 4.997) and every exp argument is <= 709.78 (R + range obligations)
harness!(name=c09_gamma_range, prop=C09, mode=R, kind=normal, tier=quick, unwind=18, {
    crate::rt::range_checks_on();
    let z = inp::f64(0);
    vassume!(z >= 0.5 && z <= 171.0);
    let g = gamma(z);
    #[cfg(kani)]
    crate::rt::record(!(g < 0.0) || g <= 0.0);
    #[cfg(not(kani))]
    vassert!(g.is_finite(), "gamma({:e}) = {:e} although the true value is finite", z, g);
});
