#!/bin/bash
# One-time setup after a fresh restore (offline): lock file for the harness crate and the native
# replay binaries. Every check rebuilds what it needs from /repo's working tree anyway.
set -e
cd "$(dirname "$0")"
export CARGO_NET_OFFLINE=true
mkdir -p build evidence replays
[ -f harness/Cargo.lock ] || cp /repo/Cargo.lock harness/Cargo.lock
python3 - <<'PY'
import sys; sys.path.insert(0, '.')
from ksmt import engine
engine.write_registry(engine.scan_harnesses())
PY
(cd harness && cargo build --bin vhreplay --target-dir ../build/native >/dev/null 2>&1 && cargo build --release --bin vhreplay --target-dir ../build/native >/dev/null 2>&1)
echo setup ok
