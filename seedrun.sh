#!/bin/bash
# usage: seedrun.sh <PROP> <worktree> <mutdir>...   (development aid)
# for each mutation: apply to the scratch worktree, run the property's quick check against that copy, revert.
P=$1; W=$2; shift 2
for M in "$@"; do
  (cd $W && git checkout -q -- . && git apply $M/patch.diff) || { echo "$M: patch failed"; continue; }
  OUT=$(cd /verif && KSMT_REPO=$W ./check $P --jobs 8 2>&1)
  RC=$?
  (cd $W && git checkout -q -- .)
  echo "=== $P $(basename $M): rc=$RC"
  echo "$OUT" | grep -E '^VIOLATION|^MACHINERY|^UNDECIDED|^BUILD|obligations' | cut -c1-260 | head -8
done
