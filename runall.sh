#!/bin/bash
# development aid: run every quick check sequentially against /repo, one log each
cd "$(dirname "$0")"
mkdir -p build/logs
for p in ${@:-C01 C02 C03 C04 C05 C06 C07 C08 C09 C10 C11 C12 C13 C14 C15 C16 C17 C18 C19 C20}; do
  s=$(date +%s)
  ./check $p > build/logs/$p.log 2>&1
  rc=$?
  echo "$p rc=$rc $(( $(date +%s) - s ))s $(tail -1 build/logs/$p.log)"
done
