#!/bin/bash
# usage: seedconfirm.sh <worktree> <mutation dir with patch.diff + demo.rs>
# confirms: existing tests pass with the patch; demo fails with it and passes without it.
W=$1; M=$2
export CARGO_NET_OFFLINE=true CARGO_TARGET_DIR=$W/target
cd $W && git checkout -q -- . && git clean -fdq tests 2>/dev/null
mkdir -p tests && cp $M/demo.rs tests/seed_demo.rs
cargo test --offline --test seed_demo >$W/sc_clean.log 2>&1; CLEAN=$?
git apply $M/patch.diff || { echo "PATCH-DOES-NOT-APPLY"; exit 1; }
cargo test --offline --lib 2>&1 | grep -E '^test result' > $W/sc_lib.log; 
cargo test --offline --test seed_demo >$W/sc_mut.log 2>&1; MUT=$?
git checkout -q -- . ; rm -f tests/seed_demo.rs; rmdir tests 2>/dev/null
echo "existing: $(cat $W/sc_lib.log | head -1) | demo clean rc=$CLEAN | demo mutated rc=$MUT"
