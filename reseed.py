#!/usr/bin/env python3
"""Development aid: re-run the property's quick check against every seeded change in /verif/seeded on a scratch
copy of /repo's current tree (never in /repo itself) and record the outcome in its meta.json.
usage: reseed.py [ids...]   (default: all); REseed_JOBS parallel runs (default 2), each check with --jobs 8"""
import json, os, re, shutil, subprocess, sys, hashlib, concurrent.futures as cf
VERIF = os.path.dirname(os.path.abspath(__file__))
ids = sys.argv[1:] or sorted(os.listdir(os.path.join(VERIF, 'seeded')))

def one(sid):
    d = os.path.join(VERIF, 'seeded', sid)
    meta = json.load(open(os.path.join(d, 'meta.json')))
    prop = meta['property']
    w = f'/tmp/rs_eval_{sid}'
    shutil.rmtree(w, ignore_errors=True)
    subprocess.run(['rsync', '-a', '--exclude', 'target', '--exclude', '.git', '/repo/', w + '/'], check=True)
    p = subprocess.run(['patch', '-p1', '-s', '-i', os.path.join(d, 'patch.diff')], cwd=w, capture_output=True, text=True)
    tag = hashlib.md5(w.encode()).hexdigest()[:8]
    alt = os.path.join(VERIF, 'build', 'alt_' + tag)
    if p.returncode != 0:
        meta['check_result'] = 'not evaluated: the patch no longer applies to the repaired tree'
        meta['caught_by'] = None
    else:
        r = subprocess.run(['./check', prop, '--jobs', '8'], cwd=VERIF, env=dict(os.environ, KSMT_REPO=w), capture_output=True, text=True)
        out = r.stdout + r.stderr
        viol = sorted(set(re.findall(r'VIOLATION property=\w+ replay=\S+ harness=(\w+)', out)))
        und = sorted(set(re.findall(r'UNDECIDED property=\w+ harness=(\w+)', out)))
        err = sorted(set(re.findall(r'(?:MACHINERY-ERROR|BUILD-FAILURE) property=\w+[: ]\s*(?:harness=)?(\S+)', out)))
        first = re.search(r'VIOLATION property=\w+ replay=\S+ harness=\w+ (.*)', out)
        summ = (re.findall(r'^\w+ quick: .*$', out, re.M) or [''])[-1]
        was = meta.get('check_result', '')
        if viol:
            meta['check_result'] = ('caught after strengthening' if ('missed' in was or 'after strengthening' in was) else 'caught') + \
                f' (exit {r.returncode}): ' + (first.group(1)[:200] if first else '')
            meta['caught_by'] = ', '.join(viol)
        else:
            meta['check_result'] = f'missed (check exit {r.returncode})'
            meta['caught_by'] = None
        meta['undecided_on_mutated_tree'] = und
        if err:
            meta['errors_on_mutated_tree'] = err
        meta['ran'] = f'KSMT_REPO=<scratch copy of /repo with the patch> ./check {prop} (quick tier, VERIF_SEED=0); {summ}'
    json.dump(meta, open(os.path.join(d, 'meta.json'), 'w'), indent=1)
    shutil.rmtree(w, ignore_errors=True)
    shutil.rmtree(alt, ignore_errors=True)
    return sid, meta['check_result'][:80], meta.get('caught_by')

with cf.ThreadPoolExecutor(int(os.environ.get('RESEED_JOBS', '2'))) as ex:
    for sid, res, by in ex.map(one, ids):
        print(sid, '|', res, '|', by, flush=True)
