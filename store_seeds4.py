#!/usr/bin/env python3
"""Development aid (round 4): copy a seeded change from /tmp/sd_<PROP>/out into /verif/seeded/<PROP>_m4d, confirm it with
seedconfirm.sh in that scratch worktree, and write a preliminary meta.json (reseed.py then records the check outcome)."""
import json, os, shutil, subprocess, sys
for p in sys.argv[1:]:
    src = f'/tmp/sd_{p}/out'
    dst = f'/verif/seeded/{p}_m4d'
    os.makedirs(dst, exist_ok=True)
    shutil.copy(src + '/patch.diff', dst + '/patch.diff')
    shutil.copy(src + '/demo.rs', dst + '/demo.rs')
    conf = subprocess.run(['/verif/seedconfirm.sh', f'/tmp/sd_{p}', dst], capture_output=True, text=True).stdout.strip()
    meta = dict(property=p, source='independent sub-agent given only the property text and a scratch worktree (round 4, on the repaired tree)',
                needs=open(src + '/notes.txt').read().strip()[:1500], confirmed='seedconfirm.sh: ' + conf, check_result='')
    json.dump(meta, open(dst + '/meta.json', 'w'), indent=1)
    print(p, conf)
