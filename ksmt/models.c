/* C-level libm entry points (what Kani's codegen emits for float intrinsics and cmath FFI)
 * forwarded to CBMC uninterpreted functions, so they appear by name in the SMT-LIB VC and the
 * interpreter decides their meaning per mode (B: exact SMT-LIB operator where one exists;
 * U/R: uninterpreted + stated axioms). Linked in the first goto-cc step. */
#define UF1(name) \
  double __CPROVER_uninterpreted_##name(double); \
  double name(double x) { return __CPROVER_uninterpreted_##name(x); }
#define UF2(name) \
  double __CPROVER_uninterpreted_##name(double, double); \
  double name(double x, double y) { return __CPROVER_uninterpreted_##name(x, y); }
UF1(sqrt) UF1(sin) UF1(cos) UF1(tan)
UF1(asin) UF1(acos) UF1(atan) UF1(sinh) UF1(cosh) UF1(tanh)
UF1(asinh) UF1(acosh) UF1(atanh) UF1(log1p) UF1(expm1)
UF1(log2) UF1(log10) UF1(exp2) UF1(cbrt)
UF1(floor) UF1(ceil) UF1(round) UF1(trunc) UF1(fabs) UF1(rint) UF1(nearbyint)
UF1(tgamma) UF1(lgamma) UF1(erf) UF1(erfc)
UF2(atan2) UF2(hypot) UF2(fmod) UF2(fmin) UF2(fmax) UF2(copysign) UF2(fdim)
double __CPROVER_uninterpreted_powi(double, int);
double __builtin_powi(double x, int n) { return __CPROVER_uninterpreted_powi(x, n); }
double __powidf2(double x, int n) { return __CPROVER_uninterpreted_powi(x, n); }
double __CPROVER_uninterpreted_fma(double, double, double);
double fma(double x, double y, double z) { return __CPROVER_uninterpreted_fma(x, y, z); }


/* exp / log with optional range obligations (path-sensitive, switched on per harness through VH_RANGE_CHECKS):
 *   exp(x): x <= 709.78 (otherwise the IEEE result overflows to +inf); for x < -745.13 the IEEE result is 0,
 *           which is modelled exactly so that a later logarithm sees the underflow;
 *   log(x): x > 0 (a non-positive argument here means every exponential in a log-sum-exp underflowed). */
int VH_RANGE_CHECKS = 0;
double __CPROVER_uninterpreted_exp(double);
double __CPROVER_uninterpreted_log(double);
double exp(double x)
{
  if (VH_RANGE_CHECKS) {
    __CPROVER_assert(x <= 709.78, "exp argument within the finite range");
    if (x < -745.13) return 0.0;
  }
  return __CPROVER_uninterpreted_exp(x);
}
double log(double x)
{
  if (VH_RANGE_CHECKS) __CPROVER_assert(x > 0.0, "log argument positive (no underflow of a sum of exponentials)");
  return __CPROVER_uninterpreted_log(x);
}

/* pow with an optional overflow obligation: for x >= 148 we have ln x >= 4.997, so y * 4.997 > 709.78 means
 * y ln x > ln(f64::MAX): the IEEE result is +inf (sufficient condition, used to exhibit overflowing powers) */
double __CPROVER_uninterpreted_pow(double, double);
double pow(double x, double y)
{
  if (VH_RANGE_CHECKS)
    __CPROVER_assert(!(x >= 148.0 && y * 4.997 > 709.78), "pow result within the finite range");
  return __CPROVER_uninterpreted_pow(x, y);
}
