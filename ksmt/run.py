"""Per-property check driver: builds, decides every harness obligation, replays, writes evidence."""
import argparse
import concurrent.futures as cf
import fnmatch
import json
import os
import re
import shutil
import subprocess
import sys
import time

sys.setrecursionlimit(20000)   # CBMC prints deeply nested let / ite chains for multi-step harnesses
from fractions import Fraction

from . import engine
from .engine import BUILD, HARNESS, VERIF, UFPFX

KNOWN_FILE = os.path.join(VERIF, 'known_findings.txt')


def load_known():
    """known: property=<id> harness=<glob> [label=<regex>] :: description"""
    res = []
    if not os.path.exists(KNOWN_FILE):
        return res
    for line in open(KNOWN_FILE):
        line = line.strip()
        if not line.startswith('known:'):
            continue
        head, _, desc = line[6:].partition('::')
        kv = dict(p.split('=', 1) for p in head.split() if '=' in p)
        res.append(dict(prop=kv.get('property'), harness=kv.get('harness', '*'), label=kv.get('label', ''),
                        desc=desc.strip()))
    return res


def f64_from_fraction(fr):
    try:
        return float(fr)
    except OverflowError:
        return float('inf') if fr > 0 else float('-inf')


def bits_of(x):
    import struct
    return struct.unpack('<Q', struct.pack('<d', x))[0]


def write_inputs(path, model):
    with open(path, 'w') as f:
        for k, v in sorted(model['f64'].items()):
            if v[0] == 'bits':
                b = v[1]
            else:
                b = bits_of(f64_from_fraction(v[1]))
            f.write(f'f {k} {b:016x}\n')
        for k, v in sorted(model['u64'].items()):
            f.write(f'u {k} {v:016x}\n')


def describe_inputs(model):
    """inputs that differ from the model's default value (the solver fills untouched indices with one value)"""
    import struct
    import collections
    d = {}
    model = dict(model)
    for kind in ('f64', 'u64'):
        vals = model[kind]
        if len(vals) > 8:
            common = collections.Counter(vals.values()).most_common(1)[0][0]
            model[kind] = {k: v for k, v in vals.items() if v != common}
    for k, v in sorted(model['f64'].items()):
        if v[0] == 'bits':
            d[f'f{k}'] = repr(struct.unpack('<d', struct.pack('<Q', v[1]))[0])
        else:
            d[f'f{k}'] = repr(f64_from_fraction(v[1]))
    for k, v in sorted(model['u64'].items()):
        d[f'u{k}'] = v
    return d


def native_replay(name, inputs_path):
    """run the harness natively in dev and release; returns list of (profile, result-line, notes)"""
    res = []
    for prof, sub in (('dev', 'debug'), ('release', 'release')):
        exe = os.path.join(BUILD, 'native', sub, 'vhreplay')
        if not os.path.exists(exe):
            continue
        try:
            p = subprocess.run([exe, name, inputs_path], capture_output=True, text=True, timeout=30)
            out = p.stdout
            if p.returncode != 0 and 'RESULT:' not in out:
                out += f'\nRESULT: PANIC abnormal exit rc={p.returncode} {p.stderr[-300:]}'
        except subprocess.TimeoutExpired:
            out = 'RESULT: PANIC native run exceeded 30 s (non-termination?)'
        line = [l for l in out.split('\n') if l.startswith('RESULT:')]
        res.append((prof, line[-1][8:].strip() if line else 'NORESULT', [l[6:] for l in out.split('\n') if l.startswith('NOTE: ')]))
    return res


def decide(h, meta, cfg):
    """decide one harness; returns a result dict (never raises)"""
    t0 = time.time()
    r = dict(harness=h['name'], mode=h['mode'], kind=h['kind'], unwind=h['unwind'], verdict='error', detail='',
             queries=0, solver_s=0.0, symex_s=0.0, vacuity=None, replays=[], modes_tried=[])
    try:
        _decide(h, meta, cfg, r)
    except RecursionError:
        # a verification condition nested deeper than the interpreter's recursion limit: no verdict
        r['verdict'] = 'undecided'
        r['detail'] = 'verification condition too deeply nested for the interpreter (recursion limit)'
    except Exception as e:  # machinery failure
        import traceback
        r['verdict'] = 'error'
        r['detail'] = f'{type(e).__name__}: {e}\n' + traceback.format_exc()[-1500:]
    if r['verdict'] == 'undecided' and not h.get('sufficient'):
        try:
            _native_search(h, os.path.join(BUILD, 'work', h['prop'], h['name']), r, cfg['seed'])
        except Exception as e:
            r['native_search_error'] = f'{type(e).__name__}: {e}'
    r.pop('_wit', None)
    r['wall_s'] = round(time.time() - t0, 2)
    return r


def _decide(h, meta, cfg, r):
    name = h['name']
    engine.PORTFOLIO = h.get('portfolio', 4)
    work = os.path.join(BUILD, 'work', h['prop'], name)
    shutil.rmtree(work, ignore_errors=True)
    os.makedirs(work, exist_ok=True)
    goto = os.path.join(work, 'h.out')
    smt = os.path.join(work, 'vc.smt2')
    r['symex_s'] += engine.make_goto(meta['goto_file'], meta['mangled_name'], goto)
    st, out, secs = engine.dump_smt(goto, h['unwind'], smt, cfg['symex_cap'], not h.get('nounwindassert'))
    r['symex_s'] = round(r['symex_s'] + secs, 2)
    if st == 'resource':
        r['verdict'] = 'undecided'
        r['detail'] = 'symbolic execution did not finish within the time / memory cap: ' + out[:200]
        return
    if st != 'ok':
        r['verdict'] = 'error'
        r['detail'] = f'cbmc produced no VC ({st}): ' + out[-800:]
        return
    m = re.search(r'size of program expression: (\d+) steps', out)
    r['steps'] = int(m.group(1)) if m else 0
    m = re.search(r'Generated (\d+) VCC\(s\), (\d+) remaining', out)
    r['vccs'] = [int(m.group(1)), int(m.group(2))] if m else None
    # functions of the crate under test that have a body in this program
    rc, lf, _ = engine.sh(f'goto-instrument --list-goto-functions {goto} 2>/dev/null', timeout=120)
    fns = set()
    for line in lf.split('\n'):
        if line.startswith('compute::') or line.startswith('<compute::') or ' as compute::' in line or line.startswith('alea::'):
            if 'body not available' not in line:
                fns.add(line.split(' /*')[0].strip())
    r['functions'] = sorted(fns)
    vc = engine.VC(smt)
    r['vc_bytes'] = vc.size
    tags = [t for _, t in vc.disj]
    if h['kind'] == 'mustpanic':
        main = [d for d, t in vc.disj if t == 'UNREACH']
        vac = [d for d, t in vc.disj if t == 'CALL']
    else:
        main = [d for d, t in vc.disj if t in ('prop', 'EXACT')]
        vac = [d for d, t in vc.disj if t == 'END']
    r['disjuncts'] = dict(total=len(tags), main=len(main), marker=len(vac))
    if not vac:
        # the harness end is statically unreachable. For a normal harness that can be a genuine violation
        # (the code under test panics on every input): replay natively on the pinned inputs to find out.
        if h['kind'] == 'normal' and _replay_pinned(h, work, r, cfg['seed']):
            return
        r['verdict'] = 'error'
        r['detail'] = 'vacuity marker not present in the VC (harness end / call site statically unreachable)'
        return
    modes = [h['mode']]
    cap = (h.get('cap') or cfg['solver_cap']) if cfg['tier'] == 'quick' else max(cfg['solver_cap'], h.get('cap') or 0)
    if h['mode'] == 'U':
        modes += ['B', 'R']
    if h.get('modes'):
        modes = list(h['modes'])
    ins, getq = engine.model_queries(vc, h['mode'])
    r['inputs'] = dict(f64=len(ins['f64']), u64=len(ins['u64']))
    final = None
    vac_fail = None
    for mode in modes:
        r['modes_tried'].append(mode)
        it, lines, ax = engine.interpret(vc, mode, h['axioms'])
        r.setdefault('axioms_n', {})[mode] = len(ax)
        r.setdefault('fp_ops', {})[mode] = it.stats['fp_ops']
        if cfg.get('keep'):
            open(os.path.join(work, f'interp_{mode}.smt2'), 'w').write('\n'.join(lines) + '\n')
        # ---- vacuity twin (only once, in the harness's own mode): first with the float inputs pinned to
        # simple distinct values (a ground evaluation), then unpinned
        if r['vacuity'] is None:
            vq = f'(assert {" ".join(vac) if len(vac) == 1 else "(or " + " ".join(vac) + ")"})'
            pins = []
            wit = _reach_witness(h, work, cfg['seed'])
            if wit is not None:
                pl = _pins_for(mode, wit, it)
                if pl:
                    pins.append(pl)
                    if wit.get('native') == 'PASS':
                        r['_wit'] = wit
                r['reach_witness'] = 'native'
            v = None
            for pl in pins + [[]]:
                q = lines + pl + [vq, '(check-sat)']
                v, o, s = engine.run_solver(q, cap if not pl else min(cap, 60), cfg['seed'], any_solver=True)
                r['queries'] += 1
                r['solver_s'] += s
                if v == 'sat':
                    break
            r['vacuity'] = v
            if v == 'unsat' and h['kind'] == 'normal' and _replay_pinned(h, work, r, cfg['seed']):
                return
            if v != 'sat':
                vac_fail = ('error' if v == 'unsat' else 'undecided',
                            f'vacuity twin is {v}: the harness end (or call site) is not reachable / not decided' + (o[:300] if v == 'error' else ''))
                hang = os.path.join(work, 'hang.inputs')
                if h['kind'] == 'normal' and os.path.exists(hang):
                    reps = native_replay(name, hang)
                    if reps and all('exceeded' in res for _, res, _ in reps):
                        r['verdict'] = 'violation'
                        r['decided_in'] = 'harness end not shown reachable + native run without end'
                        r['detail'] = 'the harness end was not shown reachable and the native run on an admitted input does not terminate: ' + '; '.join(f'{p}: {res}' for p, res, _ in reps)
                        rdir = os.path.join(BUILD, 'replays') if engine.REPO != '/repo' else os.path.join(VERIF, 'replays')
                        os.makedirs(rdir, exist_ok=True)
                        rp = os.path.join(rdir, f'{name}.inputs')
                        shutil.copy(hang, rp)
                        r['replay'] = rp
                        return
                if not (v == 'unsat' and h['kind'] == 'normal' and main):
                    r['verdict'], r['detail'] = vac_fail
                    return
                # harness end unreachable: either the machinery is inconsistent or the code under test fails
                # (panics) on every admitted input. The main query tells which: a reproduced model is a violation.
        # (not under U: there a sat answer is an artefact of the abstraction, not a disagreement)
        # (nor when uninterpreted functions other than sqrt occur: a pinned input does not pin their values)
        ufs = [k for k in it.apps if k != 'sqrt']
        if r.get('_wit') and main and 'translator_check' not in r and h['kind'] == 'normal' and mode != 'U' and ufs:
            r['translator_check'] = 'skipped (uninterpreted functions: ' + ' '.join(sorted(ufs)[:6]) + ')'
        if r.get('_wit') and main and 'translator_check' not in r and h['kind'] == 'normal' and mode != 'U':
            tl = [d for d, t in vc.disj if t == 'TOL']
            ex = [d for d, t in vc.disj if t == 'EXACT']
            props = [d for d, t in vc.disj if t == 'prop']
            goal = list(props)
            if len(ex) == 1 and len(tl) == 1 and ex[0] in vc.parts and tl[0] in vc.parts:
                goal.append(f'(and {vc.parts[ex[0]][0]} (not {vc.parts[tl[0]][1]}))')
            elif ex:
                goal += ex
            if goal:
                q = lines + _pins_for(mode, r['_wit'], it) + [f'(assert (or {" ".join(goal)} false))', '(check-sat)']
                v, o, s = engine.run_solver(q, min(cap, 30), cfg['seed'])
                r['queries'] += 1
                r['solver_s'] += s
                # unsat = the encoding evaluates this input like the native run did (every obligation met within
                # tolerance, no panic); sat = encoding and implementation disagree on a concrete trace
                r['translator_check'] = {'unsat': 'agree', 'sat': 'DISAGREE'}.get(v, 'inconclusive')
                if v == 'sat':
                    r['verdict'] = 'error'
                    r['detail'] = 'translator validation failed: on an input where the native run meets every obligation the encoding reports a violation'
                    r.pop('_wit', None)
                    return
        if mode != 'U':
            r.pop('_wit', None)
        if h['kind'] != 'mustpanic' and it.extra_obligations:
            main = [d for d, t in vc.disj if t in ('prop', 'EXACT')] + it.extra_obligations
            r['extra_obligations'] = len(it.extra_obligations)
        if not main:
            r['verdict'] = 'unsat'
            r['detail'] = 'all property VCs discharged by CBMC simplification' if h['kind'] != 'mustpanic' else \
                'point after the call statically unreachable'
            return
        # ---- main query, with up to cfg.models counterexample attempts
        block = []
        attempts = 0
        while True:
            q = lines + block + [f'(assert (or {" ".join(main)} false))', '(check-sat)']
            if getq:
                q.append(f'(get-value ({" ".join(getq)}))')
            if os.environ.get('KSMT_KEEPQ'):
                # development aid: keep the main query for experiments with other solver configurations
                open(os.path.join(engine.BUILD, 'work', h['prop'], h['name'], 'main.smt2'), 'w').write('\n'.join(q) + '\n')
            v, o, s = engine.run_solver(q, cap, cfg['seed'])
            r['queries'] += 1
            r['solver_s'] += s
            if v == 'unsat':
                if vac_fail:
                    r['verdict'], r['detail'] = vac_fail
                    return
                if attempts == 0:
                    r['verdict'] = 'unsat'
                    r['decided_in'] = mode
                    return
                final = ('undecided', f'{mode}: sat but {attempts} model(s) did not reproduce natively')
                break
            if v in ('timeout', 'unknown') and 1 < len(main) <= 24 and not block:
                # the disjunction as a whole did not close: decide the disjuncts one by one (each query only has
                # to reason about one obligation); all unsat = unsat, any sat = a model to replay
                import concurrent.futures as _cf
                each = max(10, min(60, cap // 2))

                def one(d):
                    q1 = lines + [f'(assert {d})', '(check-sat)']
                    if getq:
                        q1.append(f'(get-value ({" ".join(getq)}))')
                    return engine.run_solver(q1, each, cfg['seed'])
                verdicts = []
                with _cf.ThreadPoolExecutor(3) as ex:
                    for (v1, o1, s1) in ex.map(one, main):
                        verdicts.append((v1, o1))
                        r['queries'] += 1
                        r['solver_s'] += s1
                r['split'] = dict(disjuncts=len(main), unsat=sum(1 for x, _ in verdicts if x == 'unsat'),
                                  sat=sum(1 for x, _ in verdicts if x == 'sat'))
                sat1 = [o1 for x, o1 in verdicts if x == 'sat']
                if sat1:
                    v, o = 'sat', sat1[0]
                elif all(x == 'unsat' for x, _ in verdicts):
                    v = 'unsat'
                    if vac_fail:
                        r['verdict'], r['detail'] = vac_fail
                        return
                    r['verdict'] = 'unsat'
                    r['decided_in'] = mode + ' (per-disjunct)'
                    return
            if v != 'sat':
                final = ('undecided', f'{mode}: solver answered {v} ' + (o[:200] if v == 'error' else ''))
                break
            attempts += 1
            if h['kind'] != 'mustpanic' and mode != 'U':
                # prefer a counterexample that violates the obligations by more than the native tolerance
                ex = [d for d, t in vc.disj if t == 'EXACT']
                tl = [d for d, t in vc.disj if t == 'TOL']
                tolmain = [d for d, t in vc.disj if t == 'prop'] + list(it.extra_obligations)
                if len(ex) == 1 and len(tl) == 1 and ex[0] in vc.parts and tl[0] in vc.parts:
                    tolmain.append(f'(and {vc.parts[ex[0]][0]} (not {vc.parts[tl[0]][1]}))')
                    q2 = lines + block + [f'(assert (or {" ".join(tolmain)} false))', '(check-sat)']
                    if getq:
                        q2.append(f'(get-value ({" ".join(getq)}))')
                    v2, o2, s2 = engine.run_solver(q2, cap, cfg['seed'])
                    r['queries'] += 1
                    r['solver_s'] += s2
                    if v2 == 'sat':
                        o = o2
                        r['tol_model'] = True
                    elif v2 == 'unsat' and attempts == 1 and not vac_fail:
                        # the exact equalities fail somewhere (typically by the rounding of a constant that CBMC
                        # folded in IEEE arithmetic, e.g. 1.0/3.0), but no input violates them by more than the
                        # obligation's stated tolerance
                        r['verdict'] = 'unsat'
                        r['decided_in'] = mode + ' (within the stated tolerance; exact equality is sat)'
                        r['within_tolerance_only'] = True
                        return
            model = engine.parse_model(o, mode)
            ipath = os.path.join(work, f'cex_{mode}_{attempts}.inputs')
            write_inputs(ipath, model)
            reps = native_replay(name, ipath)
            rec = dict(mode=mode, inputs=describe_inputs(model), results=[(p, res) for p, res, _ in reps], file=ipath)
            r['replays'].append(rec)
            bad = [(p, res) for p, res, _ in reps if res.startswith('FAIL') or res.startswith('PANIC')]
            if bad and h.get('sufficient'):
                final = ('undecided', 'the sufficient condition posed by this obligation fails on a replayed input (' +
                         '; '.join(f'{p}: {res}' for p, res in bad)[:300] + '); this is not a violation of the property: the necessary-side obligations decide')
                break
            if bad:
                r['verdict'] = 'violation'
                r['decided_in'] = mode
                r['detail'] = '; '.join(f'{p}: {res}' for p, res in bad)
                # persistent replay file
                rdir = os.path.join(BUILD, 'replays') if engine.REPO != '/repo' else os.path.join(VERIF, 'replays')
                os.makedirs(rdir, exist_ok=True)
                rp = os.path.join(rdir, f'{name}.inputs')
                shutil.copy(ipath, rp)
                r['replay'] = rp
                return
            if mode == 'R' and attempts == 1 and ins['f64']:
                # a real-arithmetic model is an arbitrary rational point; whether it survives rounding to doubles is
                # luck (an exact cancellation, a zero pivot). Ask once for a model on a dyadic grid (multiples of 1/8,
                # magnitude <= 1000): such inputs are doubles and small computations on them are exact.
                grid = []
                for k in sorted(ins['f64']):
                    grid += [f'(declare-fun vh_grid_{k} () Int)',
                             f'(assert (= ({UFPFX}in_f64 (_ bv{k} 32)) (/ (to_real vh_grid_{k}) 8.0)))',
                             f'(assert (and (<= (- 8000) vh_grid_{k}) (<= vh_grid_{k} 8000)))']
                qg = lines + grid + [f'(assert (or {" ".join(main)} false))', '(check-sat)']
                if getq:
                    qg.append(f'(get-value ({" ".join(getq)}))')
                vg, og, sg = engine.run_solver(qg, min(cap, 60), cfg['seed'])
                r['queries'] += 1
                r['solver_s'] += sg
                r['grid_model'] = vg
                if vg == 'sat':
                    gm = engine.parse_model(og, mode)
                    gpath = os.path.join(work, 'cex_R_grid.inputs')
                    write_inputs(gpath, gm)
                    greps = native_replay(name, gpath)
                    r['replays'].append(dict(mode='R (dyadic grid)', inputs=describe_inputs(gm), results=[(p, res) for p, res, _ in greps], file=gpath))
                    gbad = [(p, res) for p, res, _ in greps if res.startswith('FAIL') or res.startswith('PANIC')]
                    if gbad:
                        r['verdict'] = 'violation'
                        r['decided_in'] = 'R (model on a dyadic grid)'
                        r['detail'] = '; '.join(f'{p}: {res}' for p, res in gbad)
                        rdir = os.path.join(BUILD, 'replays') if engine.REPO != '/repo' else os.path.join(VERIF, 'replays')
                        os.makedirs(rdir, exist_ok=True)
                        rp = os.path.join(rdir, f'{name}.inputs')
                        shutil.copy(gpath, rp)
                        r['replay'] = rp
                        return
            if attempts >= cfg['models'] or mode == 'U':
                final = ('undecided', f'{mode}: sat, {attempts} model(s) replayed natively without violation')
                break
            # block this model (on the inputs) and ask again
            conj = []
            for k, val in model['f64'].items():
                if val[0] == 'real':
                    fr = val[1]
                    lit = f'(/ {abs(fr.numerator)}.0 {fr.denominator}.0)'
                    if fr < 0:
                        lit = f'(- {lit})'
                    conj.append(f'(= ({UFPFX}in_f64 (_ bv{k} 32)) {lit})')
                elif mode == 'B':
                    conj.append(f'(= ({UFPFX}in_f64 (_ bv{k} 32)) ((_ to_fp 11 53) #x{val[1]:016x}))')
            for k, val in model['u64'].items():
                conj.append(f'(= ({UFPFX}in_u64 (_ bv{k} 32)) #x{val:016x})')
            if not conj:
                final = ('undecided', f'{mode}: sat with no inputs to vary')
                break
            block.append(f'(assert (not (and {" ".join(conj)})))')
        # next mode (U -> B -> R escalation)
    if final:
        r['verdict'], r['detail'] = final
    if vac_fail and r['verdict'] != 'violation':
        r['verdict'], r['detail'] = vac_fail


def pinned_value(k, variant):
    num = (k * 37 + 11) % 101 + 8 if variant == 0 else -((k * 53 + 7) % 89) - 3
    return num


def _pins_for(mode, wit, it):
    """assertions that pin every input to the values of a native witness, in the literal syntax of the mode"""
    import struct
    pl = []
    if UFPFX + 'in_f64' in it.funret:
        for k, (_, fr) in wit['f64'].items():
            if mode == 'R':
                lit = f'(/ {abs(fr.numerator)}.0 {fr.denominator}.0)'
                lit = lit if fr >= 0 else f'(- {lit})'
            else:
                bits = struct.unpack('<Q', struct.pack('<d', float(fr)))[0]
                lit = f'((_ to_fp 11 53) #x{bits:016x})' if mode == 'B' else f'#x{bits:016x}'
            pl.append(f'(assert (= ({UFPFX}in_f64 (_ bv{k} 32)) {lit}))')
    if UFPFX + 'in_u64' in it.funret:
        for k, val in wit['u64'].items():
            pl.append(f'(assert (= ({UFPFX}in_u64 (_ bv{k} 32)) #x{val:016x}))')
    return pl


def _candidates(seed, n=40, hint=None):
    """candidate concrete inputs for native exploration: the two fixed pinned sets, then seeded pseudo-random
    small dyadic floats and small integers"""
    import random
    rnd = random.Random(1000 + seed)
    for attempt in range(n):
        if attempt < 2:
            f = {k: ('real', Fraction(pinned_value(k, attempt), 8)) for k in range(engine.NINPUT)}
            u = {k: 0 for k in range(engine.NINPUT)}
        else:
            span = rnd.choice([1, 1, 4, 16, 64])
            f = {k: ('real', Fraction(rnd.randint(-8 * span, 8 * span), 8 * rnd.choice([1, 1, 16]))) for k in range(engine.NINPUT)}
            top = rnd.choice([1, 3, 8, 40, 70])
            u = {k: rnd.randint(0, top) for k in range(engine.NINPUT)}
        # harness-provided hint (`// @witness <harness>: f4=0.1 u0=3`): values known to satisfy the assumptions
        for tok in (hint or '').split():
            k, _, val = tok.partition('=')
            if k[0] == 'f':
                f[int(k[1:])] = ('real', Fraction(val))
            elif k[0] == 'u':
                u[int(k[1:])] = int(val)
        yield {'f64': f, 'u64': u}


def _replay_pinned(h, work, r, seed=0):
    """the harness end is unreachable symbolically: look natively for an admitted input on which the code
    under test fails (panics); a FAIL/PANIC there is a reproduced violation"""
    for n, model in enumerate(_candidates(seed, hint=h.get('witness'))):
        ipath = os.path.join(work, f'pinned_{n}.inputs')
        write_inputs(ipath, model)
        reps = native_replay(h['name'], ipath)
        bad = [(p, res) for p, res, _ in reps if res.startswith('FAIL') or res.startswith('PANIC')]
        if n < 2 or bad:
            r['replays'].append(dict(mode='native-search', inputs=describe_inputs(model) if bad else {'pinned_set': n},
                                     results=[(p, res) for p, res, _ in reps], file=ipath))
        if bad:
            r['verdict'] = 'violation'
            r['decided_in'] = 'symex (harness end unreachable) + native replay'
            r['detail'] = 'harness end unreachable for every input; ' + '; '.join(f'{p}: {res}' for p, res in bad)
            rdir = os.path.join(BUILD, 'replays') if engine.REPO != '/repo' else os.path.join(VERIF, 'replays')
            os.makedirs(rdir, exist_ok=True)
            rp = os.path.join(rdir, f"{h['name']}.inputs")
            shutil.copy(ipath, rp)
            r['replay'] = rp
            return True
        if all(res.startswith('PASS') for _, res, _ in reps) and reps:
            return False   # the end IS reachable natively: the symbolic side is inconsistent, not the code
    return False


def _native_search(h, work, r, seed):
    """the solver did not decide the obligation (time-out, or a model of the U/R abstraction that does not
    reproduce): look natively, among the seeded candidate inputs, for an admitted input on which the harness
    fails in both build profiles. Such an input is a reproduced violation of the property whatever the solver
    said; it is reported as found by this search, not as a solver verdict. Nothing is ever concluded from a
    search that finds no failure."""
    tried = 0
    for n, model in enumerate(_candidates(seed, n=24, hint=h.get('witness'))):
        ipath = os.path.join(work, f'search_{n}.inputs')
        write_inputs(ipath, model)
        reps = native_replay(h['name'], ipath)
        tried += 1
        bad = [(p, res) for p, res, _ in reps if res.startswith('FAIL') or res.startswith('PANIC')]
        if bad and len(bad) == len(reps):
            r['replays'].append(dict(mode='native-search', inputs=describe_inputs(model),
                                     results=[(p, res) for p, res, _ in reps], file=ipath))
            r['undecided_detail'] = r['detail']
            r['verdict'] = 'violation'
            r['decided_in'] = 'native search after an inconclusive solver answer (' + r['detail'][:80] + ')'
            r['detail'] = '; '.join(f'{p}: {res}' for p, res in bad)
            rdir = os.path.join(BUILD, 'replays') if engine.REPO != '/repo' else os.path.join(VERIF, 'replays')
            os.makedirs(rdir, exist_ok=True)
            rp = os.path.join(rdir, f"{h['name']}.inputs")
            shutil.copy(ipath, rp)
            r['replay'] = rp
            break
        os.remove(ipath)
    r['native_search'] = tried


def _reach_witness(h, work, seed):
    """an input on which the harness reaches its end natively, found among the candidate inputs; the vacuity
    twin is then a ground evaluation on that input instead of a search"""
    exe = os.path.join(BUILD, 'native', 'debug', 'vhreplay')
    for model in _candidates(seed, hint=h.get('witness')):
        ipath = os.path.join(work, 'reach.inputs')
        write_inputs(ipath, model)
        try:
            p = subprocess.run([exe, h['name'], ipath], capture_output=True, text=True, timeout=20)
        except subprocess.TimeoutExpired:
            # an admitted input on which the native run does not come back: remember it (non-termination)
            hang = os.path.join(work, 'hang.inputs')
            shutil.copy(ipath, hang)
            continue
        # FAIL counts too: natively a failed obligation stops the run, symbolically it is only recorded
        if 'RESULT: PASS' in p.stdout or 'RESULT: FAIL' in p.stdout:
            model['native'] = 'PASS' if 'RESULT: PASS' in p.stdout else 'FAIL'
            return model
    return None


def build_native(log):
    outs = []
    for prof in ('', '--release'):
        cmd = f'cargo build {prof} --bin vhreplay --target-dir {os.path.join(BUILD, "native")}'
        rc, out, secs = engine.sh(cmd, timeout=1800, cwd=HARNESS, mem=False)
        log.write(f'$ {cmd}\n{out}\n')
        if rc != 0:
            raise RuntimeError('native replay build failed:\n' + out[-3000:])
        outs.append(secs)
    return outs


def main(argv=None):
    ap = argparse.ArgumentParser()
    ap.add_argument('prop')
    ap.add_argument('--tier', default=os.environ.get('VERIF_TIER', 'quick'))
    ap.add_argument('--only', default=None, help='glob on harness names')
    ap.add_argument('--jobs', type=int, default=int(os.environ.get('VERIF_JOBS', '16')))
    ap.add_argument('--keep', action='store_true')
    ap.add_argument('--no-evidence', action='store_true')
    ap.add_argument('--replay', default=None, help='replay a stored inputs file: <harness>.inputs')
    a = ap.parse_args(argv)
    prop = a.prop.upper()
    feature = prop.lower()
    seed = int(os.environ.get('VERIF_SEED', '0') or 0)
    tier = 'thorough' if a.tier.startswith('t') else 'quick'
    t0 = time.time()
    os.makedirs(BUILD, exist_ok=True)
    os.makedirs(os.path.join(VERIF, 'evidence'), exist_ok=True)
    logp = os.path.join(BUILD, f'{feature}_{tier}.log')
    log = open(logp, 'w')
    hs_all = engine.scan_harnesses()
    engine.write_registry(hs_all)
    if a.replay:
        build_native(log)
        name = os.path.basename(a.replay).split('.')[0]
        for p, res, notes in native_replay(name, a.replay):
            print(f'{p}: {res}')
            for n in notes:
                print('   ', n)
        return 0
    hs = {n: h for n, h in hs_all.items() if h['prop'] == prop and (tier == 'thorough' or h['tier'] in ('quick', f'rot{seed % 3}'))}
    if a.only:
        hs = {n: h for n, h in hs.items() if fnmatch.fnmatch(n, a.only)}
    if not hs:
        print(f'no harnesses for {prop}')
        return 2
    cfg = dict(seed=seed, keep=a.keep or True, models=3, tier=tier,
               solver_cap=int(os.environ.get('KSMT_SOLVER_CAP', 30 if tier == 'quick' else 600)),
               symex_cap=int(os.environ.get('KSMT_SYMEX_CAP', 300 if tier == 'quick' else 1800)))
    try:
        native_s = build_native(log)
        fallback = sorted({f for h in hs.values() for f in h.get('fallback', []) if f in hs_all and f not in hs})
        metas, codegen_s = engine.codegen(feature, list(hs) + fallback, log)
    except Exception as e:
        print(f'BUILD-FAILURE property={prop}: {e}')
        return 2
    missing = [n for n in hs if n not in metas]
    if missing:
        print(f'BUILD-FAILURE property={prop}: no codegen output for {missing[:5]}')
        return 2
    results = []
    order = sorted(hs.values(), key=lambda h: -h['unwind'])
    # memory-heavy obligations (annotation @weight w) run in their own rounds, at most jobs // w at a time
    rounds = {}
    for h in order:
        rounds.setdefault(max(1, h.get('weight', 1)), []).append(h)
    for w in sorted(rounds):
        with cf.ProcessPoolExecutor(max_workers=max(1, a.jobs // w)) as ex:
            futs = {ex.submit(decide, h, metas[h['name']], cfg): h for h in rounds[w]}
            for f in cf.as_completed(futs):
                r = f.result()
                results.append(r)
                log.write(json.dumps(r) + '\n')
                log.flush()
                if os.environ.get('KSMT_VERBOSE'):
                    print(f"  {r['harness']:40s} {r['verdict']:10s} {r['wall_s']:7.1f}s {r['detail'][:100]}", flush=True)
    # sufficient-condition obligations that did not come back unsat: decide their necessary-side fallbacks now
    need = sorted({f for r in results if r['verdict'] == 'undecided' and hs[r['harness']].get('sufficient')
                   for f in hs[r['harness']].get('fallback', []) if f in metas and f not in hs})
    if need:
        for f in need:
            hs[f] = hs_all[f]
        with cf.ProcessPoolExecutor(max_workers=a.jobs) as ex:
            for r in ex.map(decide, [hs[f] for f in need], [metas[f] for f in need], [cfg] * len(need)):
                r['fallback_run'] = True
                results.append(r)
                log.write(json.dumps(r) + '\n')
                log.flush()
    results.sort(key=lambda r: r['harness'])
    known = [k for k in load_known() if k['prop'] == prop]
    rc = 0
    nviol = 0
    lines = []
    for r in results:
        if r['verdict'] == 'violation':
            k = [k for k in known if fnmatch.fnmatch(r['harness'], k['harness']) and re.search(k['label'], r['detail'])]
            if k:
                r['known'] = k[0]['desc']
                lines.append(f"KNOWN-FINDING: property={prop} {r['harness']}: {k[0]['desc']} [{r['detail'][:160]}]")
            else:
                nviol += 1
                rc = 1
                lines.append(f"VIOLATION property={prop} replay={r.get('replay')} harness={r['harness']} {r['detail'][:300]}")
        elif r['verdict'] == 'error':
            if rc == 0:
                rc = 2
            lines.append(f"MACHINERY-ERROR property={prop} harness={r['harness']} {r['detail'][:300]}")
        elif r['verdict'] == 'undecided':
            lines.append(f"UNDECIDED property={prop} harness={r['harness']} {r['detail'][:200]}")
    for l in lines:
        print(l)
    wall = time.time() - t0
    if not a.no_evidence and not a.only and engine.REPO == '/repo':
        write_evidence(prop, tier, seed, results, hs, cfg, wall, nviol, dict(codegen_s=codegen_s, native_build_s=native_s))
    n_unsat = sum(1 for r in results if r['verdict'] == 'unsat')
    print(f"{prop} {tier}: {len(results)} obligations: {n_unsat} unsat, "
          f"{sum(1 for r in results if r['verdict'] == 'violation')} violated "
          f"({sum(1 for r in results if r.get('known'))} known), "
          f"{sum(1 for r in results if r['verdict'] == 'undecided')} undecided, "
          f"{sum(1 for r in results if r['verdict'] == 'error')} errors; {wall:.0f}s; log {logp}")
    return rc


def write_evidence(prop, tier, seed, results, hs, cfg, wall, nviol, extra):
    decided = [r for r in results if r['verdict'] in ('unsat', 'violation') and r.get('vacuity') == 'sat']
    fns = sorted({f for r in results for f in r.get('functions', [])})
    samples = []
    for r in results[:400]:
        s = dict(harness=r['harness'], interpretation=r.get('decided_in', r['mode']), kind=r['kind'], unwind=r['unwind'],
                 verdict=r['verdict'], vacuity_twin=r.get('vacuity'), solver_s=round(r['solver_s'], 2), symex_s=r['symex_s'],
                 vc_bytes=r.get('vc_bytes'), inputs=r.get('inputs'), bound=hs[r['harness']].get('bound', ''),
                 claim=hs[r['harness']].get('claim', ''))
        if r['verdict'] not in ('unsat',):
            s['detail'] = r['detail'][:300]
        if r.get('known'):
            s['known_finding'] = r['known']
        if r['replays']:
            s['replayed_models'] = [dict(inputs=x['inputs'], results=x['results']) for x in r['replays'][:2]]
        samples.append(s)
    assumptions = [
        'rustc + Kani 0.68 MIR->goto codegen of /repo working tree and the harness crate; goto-cc/goto-instrument; CBMC 6.11 symbolic execution with unwinding assertions and its SMT-LIB (--smt2 --fpa) encoder',
        'interpretation per obligation (B bit-precise / U uninterpreted float ops / R floats read as reals, rounding = identity): see coverage.samples[].interpretation; R verdicts say nothing about rounding, overflow, NaN',
        'stubs: compute::linalg::is_square -> integer square root loop; f64::abs -> solver-visible fabs; C libm entry points -> uninterpreted functions (ksmt/models.c); alea RNG -> symbolic draws where used',
        'solvers: ' + engine.Z3 + f', z3 4.8.12 and cvc5 racing (cap {cfg["solver_cap"]} s per query unless the obligation states its own); cvc5 counts for unsat only when a model is wanted; any (error line = undecided',
        'obligations declared with harness_s! replace linalg::solve / linalg::invert_matrix by their contracts (A x = b, A X = I on fresh symbolic results): their verdicts are relative to property C01; their bound says so',
        'an obligation the solvers leave undecided is replayed natively on seeded candidate inputs: a failure reproduced in both build profiles is reported as a violation (interpretation "native search ..."), a search that finds nothing concludes nothing',
        'every sat model is replayed natively (dev + release) against the property tolerance before it is reported',
    ]
    for h in hs.values():
        for a in h['assumes']:
            assumptions.append(f"{h['name']}: assume {a}")
    axioms_used = sorted({a for h in hs.values() for a in h['axioms']})
    ev = dict(
        property_id=prop, tier=tier, seed=seed, level='model_checking', wall_s=round(wall, 1), violations=nviol,
        coverage=dict(
            evaluations=sum(r['queries'] for r in results),
            distinct_nontrivial=len(decided),
            rule='one obligation = one harness instance (function x size/shape instance x interpretation); it counts as '
                 'non-trivial when its vacuity twin (harness end / call site reachable) is sat and the main query was '
                 'decided unsat or reproduced natively; evaluations = solver queries issued',
            samples=samples,
            obligations=len(results),
            discharged=sum(1 for r in results if r['verdict'] == 'unsat'),
            undecided=[r['harness'] for r in results if r['verdict'] == 'undecided'],
            errors=[r['harness'] for r in results if r['verdict'] == 'error'],
            known_findings=[dict(harness=r['harness'], finding=r['known']) for r in results if r.get('known')],
            functions_encoded=fns,
            axiom_sets=axioms_used,
            solver_time_s=round(sum(r['solver_s'] for r in results), 1),
            symex_time_s=round(sum(r['symex_s'] for r in results), 1),
            vc_bytes_total=sum(r.get('vc_bytes') or 0 for r in results),
            traces_validated_against_impl=sum(1 for r in results if r.get('translator_check') == 'agree'),
            native_search_runs=sum(r.get('native_search', 0) for r in results),
            fallback_obligations=[r['harness'] for r in results if r.get('fallback_run')],
            translator_validation='for every obligation with a native run that reaches the harness end and meets all obligations, the same concrete input is pinned in the encoding and the obligations are re-decided there: agree = unsat',
            build=extra,
            checker_cmd=f'./check {prop} --tier {tier}',
            exhaustive=False,
        ),
        assumptions=assumptions,
    )
    path = os.path.join(VERIF, 'evidence', f'{prop}.json')
    json.dump(ev, open(path, 'w'), indent=1)


if __name__ == '__main__':
    sys.exit(main())
