"""Axiom instances for the uninterpreted real functions of R mode (DESIGN.md §2.1).

Every axiom is a true statement about the real function it constrains and is instantiated only
at argument terms that occur in the verification condition (no quantifier reaches the solver).
`sqrt` is always on; the other sets are requested per harness (`// @axioms <harness>: set ...`).
"""
import itertools

UF = '__CPROVER_uninterpreted_'


def _f(name, *args):
    return f'(r.{name} {" ".join(args)})'


def instantiate(it, sets):
    if it.mode != 'R':
        return []
    ax = []
    apps = {k: sorted(set(v)) for k, v in it.apps.items()}
    sets = set(sets)
    for (a,) in apps.get('sqrt', []):
        s = _f('sqrt', a)
        ax.append(f'(assert (=> (>= {a} 0.0) (and (>= {s} 0.0) (= (* {s} {s}) {a}))))')
    exps = [a for (a,) in apps.get('exp', [])]
    logs = [a for (a,) in apps.get('log', [])]
    if 'exp_pos' in sets:
        for a in exps:
            ax.append(f'(assert (> {_f("exp", a)} 0.0))')
    if 'exp_zero' in sets:
        for a in exps:
            ax.append(f'(assert (=> (= {a} 0.0) (= {_f("exp", a)} 1.0)))')
    if 'exp_mono' in sets:
        for a, b in itertools.combinations(exps, 2):
            ax.append(f'(assert (= (< {a} {b}) (< {_f("exp", a)} {_f("exp", b)})))')
        for a in exps:
            ax.append(f'(assert (= (< {a} 0.0) (< {_f("exp", a)} 1.0)))')
            ax.append(f'(assert (= (> {a} 0.0) (> {_f("exp", a)} 1.0)))')
    if 'exp_neg' in sets:
        # exp(a)·exp(b) = 1 whenever a + b = 0
        for a, b in itertools.combinations_with_replacement(exps, 2):
            ax.append(f'(assert (=> (= (+ {a} {b}) 0.0) (= (* {_f("exp", a)} {_f("exp", b)}) 1.0)))')
    if 'exp_add' in sets:
        # exp(a)·exp(b) = exp(c) whenever a + b = c, for occurring a, b, c
        for a, b in itertools.combinations_with_replacement(exps, 2):
            for c in exps:
                ax.append(f'(assert (=> (= (+ {a} {b}) {c}) (= (* {_f("exp", a)} {_f("exp", b)}) {_f("exp", c)})))')
    if 'exp_log' in sets:
        # exp(ln u) = u for u > 0 ; ln(exp a) = a
        for a in exps:
            for u in logs:
                ax.append(f'(assert (=> (and (> {u} 0.0) (= {a} {_f("log", u)})) (= {_f("exp", a)} {u})))')
                ax.append(f'(assert (=> (= {u} {_f("exp", a)}) (= {_f("log", u)} {a})))')
    if 'exp_neglog' in sets:
        # exp(-ln u) · u = 1 for u > 0
        for a in exps:
            for u in logs:
                ax.append(f'(assert (=> (and (> {u} 0.0) (= (+ {a} {_f("log", u)}) 0.0)) (= (* {_f("exp", a)} {u}) 1.0)))')
    if 'exp_ratio' in sets:
        # a - b = c - d  =>  exp(a)·exp(d) = exp(b)·exp(c)
        n = len(exps)
        for i in range(n):
            for j in range(n):
                for k in range(i, n):
                    for l in range(n):
                        if i == j or k == l or (i, j) >= (k, l):
                            continue
                        a, b, c, d = exps[i], exps[j], exps[k], exps[l]
                        ax.append(f'(assert (=> (= (- {a} {b}) (- {c} {d})) (= (* {_f("exp", a)} {_f("exp", d)}) (* {_f("exp", b)} {_f("exp", c)}))))')
    if 'log_recip' in sets:
        # ln(a) + ln(b) = 0 whenever a b = 1 (a, b > 0)
        for a, b in itertools.combinations_with_replacement(logs, 2):
            ax.append(f'(assert (=> (and (> {a} 0.0) (= (* {a} {b}) 1.0)) (= (+ {_f("log", a)} {_f("log", b)}) 0.0)))')
    if 'log_mono' in sets:
        for a, b in itertools.combinations(logs, 2):
            ax.append(f'(assert (=> (and (> {a} 0.0) (> {b} 0.0)) (= (< {a} {b}) (< {_f("log", a)} {_f("log", b)}))))')
        for a in logs:
            ax.append(f'(assert (=> (> {a} 0.0) (and (= (< {a} 1.0) (< {_f("log", a)} 0.0)) (= (> {a} 1.0) (> {_f("log", a)} 0.0)))))')
    if 'log_mul' in sets:
        for a, b in itertools.combinations_with_replacement(logs, 2):
            for c in logs:
                ax.append(f'(assert (=> (and (> {a} 0.0) (> {b} 0.0) (= (* {a} {b}) {c})) (= (+ {_f("log", a)} {_f("log", b)}) {_f("log", c)})))')
    if 'sincos' in sets:
        sins = [a for (a,) in apps.get('sin', [])]
        coss = [a for (a,) in apps.get('cos', [])]
        for a in sorted(set(sins) | set(coss)):
            ax.append(f'(assert (= (+ (* {_f("sin", a)} {_f("sin", a)}) (* {_f("cos", a)} {_f("cos", a)})) 1.0))')
    if 'gamma_pos' in sets:
        # Gamma(x) > 0 for x > 0 (harness-level uninterpreted gamma = h_f1 with id 1000)
        for args in apps.get('h_f1', []):
            if len(args) == 2 and args[0] in ('#b' + bin(1000)[2:].zfill(32), '(_ bv1000 32)'):
                ax.append(f'(assert (=> (> {args[1]} 0.0) (> ({UF}h_f1 {args[0]} {args[1]}) 0.0)))')
    pows = apps.get('pow', [])
    if 'pow_pos' in sets:
        for b, e in pows:
            ax.append(f'(assert (=> (> {b} 0.0) (> {_f("pow", b, e)} 0.0)))')
    if 'pow_one' in sets:
        for b, e in pows:
            ax.append(f'(assert (=> (= {e} 1.0) (= {_f("pow", b, e)} {b})))')
            ax.append(f'(assert (=> (= {e} 0.0) (= {_f("pow", b, e)} 1.0)))')
            ax.append(f'(assert (=> (= {b} 1.0) (= {_f("pow", b, e)} 1.0)))')
            ax.append(f'(assert (=> (= {e} 2.0) (= {_f("pow", b, e)} (* {b} {b}))))')
            ax.append(f'(assert (=> (and (= {e} (- 1.0)) (not (= {b} 0.0))) (= (* {_f("pow", b, e)} {b}) 1.0)))')
    if 'pow_pow' in sets:
        # (b^e1)^e2 = b for b > 0 and e1 e2 = 1
        for (b1, e1), (b2, e2) in itertools.permutations(pows, 2):
            ax.append(f'(assert (=> (and (> {b1} 0.0) (= {b2} {_f("pow", b1, e1)}) (= (* {e1} {e2}) 1.0)) (= {_f("pow", b2, e2)} {b1})))')
        # (c/b)^e * b'^e = c^e ... and the quotient rule (x/y)^e = x^e / y^e is supplied where both sides occur
        for (b1, e1), (b2, e2) in itertools.permutations(pows, 2):
            for (b3, e3) in pows:
                ax.append(f'(assert (=> (and (> {b1} 0.0) (> {b2} 0.0) (= {e1} {e2}) (= {e2} {e3}) (= {b3} (/ {b1} {b2}))) '
                          f'(= (* {_f("pow", b3, e3)} {_f("pow", b2, e2)}) {_f("pow", b1, e1)})))')
    if 'pow_mono' in sets:
        # for base > 0: monotone in the base with the sign of the exponent
        for (b1, e1), (b2, e2) in itertools.combinations(pows, 2):
            ax.append(f'(assert (=> (and (= {e1} {e2}) (> {b1} 0.0) (> {b2} 0.0) (< {b1} {b2})) '
                      f'(and (=> (> {e1} 0.0) (< {_f("pow", b1, e1)} {_f("pow", b2, e2)})) '
                      f'(=> (< {e1} 0.0) (> {_f("pow", b1, e1)} {_f("pow", b2, e2)})))))')
        for b, e in pows:
            ax.append(f'(assert (=> (and (> {b} 1.0) (< {e} 0.0)) (< {_f("pow", b, e)} 1.0)))')
            ax.append(f'(assert (=> (and (> {b} 1.0) (> {e} 0.0)) (> {_f("pow", b, e)} 1.0)))')
    # functions that only occur in axioms (the other half of an identity) still need a declaration
    import re as _re
    decls = []
    for name in sorted(set(_re.findall(r'\(r\.([a-z0-9_]+) ', ' '.join(ax)))):
        if 'r.' + name not in it.ufdecl:
            ar = 2 if name in ('pow', 'atan2', 'hypot', 'fmod') else 1
            it.ufdecl['r.' + name] = 1
            decls.append(f'(declare-fun r.{name} ({" ".join(["Real"] * ar)}) Real)')
    return decls + ax


def obligations(it, sets):
    """extra proof obligations (disjuncts of the main query) derived from the uninterpreted applications:
    exp_range: no exp argument may exceed ln(f64::MAX) ~ 709.78 (intermediate overflow; path-insensitive, so a
    sat answer is only believed after native replay)"""
    if it.mode != 'R':
        return []
    ob = []
    apps = {k: sorted(set(v)) for k, v in it.apps.items()}
    if 'exp_range' in sets:
        for (a,) in apps.get('exp', []):
            ob.append(f'(> {a} 709.78)')
    if 'log_underflow' in sets:
        # a logarithm of a sum of exponentials must not see all of them underflow: re-evaluate the argument with
        # exp(A) read as 0 whenever A < -745.13 (below the smallest subnormal) and ask whether it can reach 0
        from .sexpr import parse, dumps as sdumps

        def flush(t):
            if isinstance(t, str):
                return t
            if len(t) == 2 and t[0] == 'r.exp':
                a = flush(t[1])
                return ['ite', ['<', a, '(- 745.13)'], '0.0', ['r.exp', a]]
            return [flush(y) for y in t]
        for (a,) in apps.get('log', []):
            if 'r.exp' not in a:
                continue
            t = parse(a)[0]
            ob.append(f'(<= {sdumps(flush(t))} 0.0)')
    return ob
