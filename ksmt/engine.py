"""KSMT engine: Kani codegen -> goto pipeline -> CBMC symex + SMT dump -> interpretation -> solver."""
import json
import os
import re
import subprocess
import time
import glob

from . import sexpr
from .interp import Interp, UFPFX, lit_bits, fp_value
from . import axioms as axioms_mod

VERIF = os.path.dirname(os.path.dirname(os.path.abspath(__file__)))
HARNESS = os.environ.get('KSMT_HARNESS') or os.path.join(VERIF, 'harness')   # KSMT_HARNESS: development aid (try harness sources from a scratch copy)
BUILD = os.path.join(VERIF, 'build')
# Development aid (seeded-change testing in parallel): KSMT_REPO=<copy of the repository> runs the same
# harness sources against that copy, with a private build directory. Registered checks never set it.
REPO = os.environ.get('KSMT_REPO', '/repo')
if REPO != '/repo':
    import hashlib
    _tag = hashlib.md5(REPO.encode()).hexdigest()[:8]
    BUILD = os.path.join(VERIF, 'build', 'alt_' + _tag)
    _h = os.path.join(BUILD, 'harness')
    os.makedirs(_h, exist_ok=True)
    subprocess.run(['rsync', '-a', '--delete', '--exclude', 'target', '--exclude', 'Cargo.lock', '--exclude', '/Cargo.toml',
                    HARNESS + '/', _h + '/'], check=True)
    _ct = open(os.path.join(HARNESS, 'Cargo.toml')).read().replace('path = "/repo"', f'path = "{REPO}"')
    _cp = os.path.join(_h, 'Cargo.toml')
    if not os.path.exists(_cp) or open(_cp).read() != _ct:   # keep its mtime when unchanged (staleness test below)
        open(_cp, 'w').write(_ct)
    if not os.path.exists(os.path.join(_h, 'Cargo.lock')):
        subprocess.run(['cp', os.path.join(REPO, 'Cargo.lock'), os.path.join(_h, 'Cargo.lock')])
    HARNESS = _h
KANI_LIB_C = os.path.expanduser('~/.kani/kani-0.68.0/library/kani/kani_lib.c')
MODELS_C = os.path.join(VERIF, 'ksmt', 'models.c')
Z3 = os.environ.get('KSMT_Z3', 'z3-new')
MEM_KB = 12 * 1024 * 1024

ENV = dict(os.environ, CARGO_NET_OFFLINE='true')


def sh(cmd, timeout=None, cwd=None, mem=True, env=None):
    """run a command under ulimit -v; returns (rc, stdout+stderr, seconds). rc = -9 on timeout"""
    t = time.time()
    pre = f'ulimit -v {MEM_KB}; ' if mem else ''
    try:
        p = subprocess.run(['bash', '-c', pre + cmd], capture_output=True, text=True, timeout=timeout, cwd=cwd,
                           env=env or ENV)
        return p.returncode, p.stdout + p.stderr, time.time() - t
    except subprocess.TimeoutExpired as e:
        out = (e.stdout or b'')
        if isinstance(out, bytes):
            out = out.decode(errors='replace')
        return -9, out, time.time() - t


# ------------------------------------------------------------------ harness metadata
HARNESS_RE = re.compile(r'harness(?:_[a-z])?!\(\s*name\s*=\s*(\w+)\s*,\s*prop\s*=\s*(\w+)\s*,\s*mode\s*=\s*(\w+)\s*,\s*kind\s*=\s*(\w+)\s*,'
                        r'\s*tier\s*=\s*(\w+)\s*,\s*unwind\s*=\s*(\d+)\s*,')
ATTR_RE = re.compile(r'//\s*@(\w+)\s+(\w+)\s*:\s*(.*)')


def scan_harnesses():
    """parse harness!(...) declarations (and `// @<key> <harness-or-prefix*>: value` annotations) from the sources"""
    hs = {}
    attrs = []
    for path in sorted(glob.glob(os.path.join(HARNESS, 'src', 'c[0-9][0-9]*.rs'))):
        mod = os.path.basename(path)[:-3]
        text = open(path).read()
        for m in HARNESS_RE.finditer(text):
            name, prop, mode, kind, tier, unwind = m.groups()
            hs[name] = dict(name=name, module=mod, prop=prop, mode=mode, kind=kind, tier=tier, unwind=int(unwind),
                            axioms=[], known=None, assumes=[], bound='', claim='', cap=None)
        for m in ATTR_RE.finditer(text):
            attrs.append((m.group(1), m.group(2), m.group(3).strip()))
    for key, pat, val in sorted(attrs, key=lambda t: len(t[1])):
        for name, h in hs.items():
            if name == pat or (pat.endswith('_') and name.startswith(pat)):
                if key == 'axioms':
                    h['axioms'] += val.split()
                elif key in ('bound', 'claim'):
                    h[key] = val
                elif key == 'cap':
                    h['cap'] = int(val)
                elif key == 'nounwindassert':
                    h['nounwindassert'] = True
                elif key == 'witness':
                    h['witness'] = val
                elif key == 'modes':
                    # interpretations to try, in order (default: the declared one; U escalates to B then R)
                    h['modes'] = val.split()
                elif key == 'weight':
                    # scheduling weight (memory): harnesses of weight w > 1 run at most jobs // w at a time
                    h['weight'] = int(val)
                elif key == 'portfolio':
                    # number of solver configurations raced after the first attempt (default 4)
                    h['portfolio'] = int(val)
                elif key == 'fallback':
                    # harnesses (of any tier) to decide when this sufficient-condition obligation comes back sat
                    h['fallback'] = val.split()
                elif key == 'sufficient':
                    # the obligation is a sufficient condition for the property, not a necessary one: `unsat`
                    # decides the clause, a reproduced `sat` is reported as undecided, never as a violation
                    h['sufficient'] = True
                elif key == 'assume':
                    h['assumes'].append(val)
    return hs


def write_registry(hs):
    lines = ['// generated by ksmt/engine.py from the harness!(..) declarations; do not edit',
             'pub fn run(name: &str) -> bool {', '    match name {']
    for name, h in sorted(hs.items()):
        lines.append(f'        "{name}" => crate::{h["module"]}::{name}(),')
    lines += ['        _ => return false,', '    }', '    true', '}', '']
    path = os.path.join(HARNESS, 'src', 'registry.rs')
    new = '\n'.join(lines)
    if not os.path.exists(path) or open(path).read() != new:
        open(path, 'w').write(new)


# ------------------------------------------------------------------ codegen
def codegen(feature, names, log):
    """cargo kani --only-codegen for the selected harnesses of one property (Kani generates code per
    harness, serially: large selections are sharded over parallel cargo invocations with their own
    target directories); returns ({harness: metadata}, seconds)"""
    import concurrent.futures as cf
    lock = os.path.join(HARNESS, 'Cargo.lock')
    if not os.path.exists(lock):
        subprocess.run(['cp', os.path.join(REPO, 'Cargo.lock'), lock])
    names = sorted(names)
    nshards = max(1, min(4, (len(names) + 23) // 24))
    shards = [names[i::nshards] for i in range(nshards)]
    t0 = time.time()
    srcs = glob.glob(os.path.join(HARNESS, 'src', '**', '*.rs'), recursive=True) + \
        glob.glob(os.path.join(HARNESS, 'alea_shim', 'src', '*.rs')) + [os.path.join(HARNESS, 'Cargo.toml')] + \
        glob.glob(os.path.join(REPO, 'src', '**', '*.rs'), recursive=True) + [os.path.join(REPO, 'Cargo.toml')]
    newest_src = max(os.path.getmtime(f) for f in srcs)

    def one(idx):
        tdir = os.path.join(BUILD, f'kani_{feature}_s{idx}')
        hflags = ' '.join(f'--harness {n}' for n in shards[idx])
        cmd = (f'cargo kani --only-codegen -Z stubbing -Z c-ffi --no-assertion-reach-checks '
               f'--features {feature} --target-dir {tdir} {hflags}')
        rc, out, secs = sh(cmd, timeout=3000, cwd=HARNESS, mem=False)
        return idx, tdir, cmd, rc, out

    metas = {}

    def collect(todo):
        with cf.ThreadPoolExecutor(nshards) as ex:
            for idx, tdir, cmd, rc, out in ex.map(one, todo):
                log.write(f'$ {cmd[:300]} ...\n{out}\n')
                if rc != 0:
                    raise RuntimeError(f'kani codegen failed (rc={rc}); see log\n' + out[-3000:])
                want = set(shards[idx])
                for mf in glob.glob(os.path.join(tdir, 'kani', '*', 'debug', 'build', 'vh', '*', 'out', 'vh-*.kani-metadata.json')):
                    md = json.load(open(mf))
                    for h in md['proof_harnesses']:
                        nm = h['pretty_name'].split('::')[-1]
                        if nm in want and os.path.exists(h['goto_file']) and os.path.getmtime(h['goto_file']) >= newest_src:
                            prev = metas.get(nm)
                            if prev is None or os.path.getmtime(h['goto_file']) > os.path.getmtime(prev['goto_file']):
                                metas[nm] = h

    collect(range(nshards))
    redo = [i for i in range(nshards) if any(n not in metas for n in shards[i])]
    if redo:
        # cargo found nothing to do although outputs are missing or older than some source: its fingerprint
        # covers only the files this feature compiles and not the harness selection. Force a rebuild once.
        now = time.time()
        os.utime(os.path.join(HARNESS, 'src', 'lib.rs'), (now, now))
        newest_src = max(newest_src, os.path.getmtime(os.path.join(HARNESS, 'src', 'lib.rs')))
        log.write(f'codegen: outputs missing or stale in shards {redo}: touched src/lib.rs and re-running\n')
        collect(redo)
    return metas, time.time() - t0


def kani_lib_c():
    """Kani's C allocator models with one change: __rust_dealloc's "allocated size matches its layout"
    sanity check (assert + assume on __CPROVER_OBJECT_SIZE) is dropped. CBMC's SMT back end mis-encodes the
    object size of reallocated Vec buffers (measured: the path after such a dealloc becomes infeasible in the
    SMT encoding while the SAT back end keeps it feasible), which would make every later obligation vacuous.
    The check concerns Rust's allocator API, not the crate under test."""
    dst = os.path.join(BUILD, 'kani_lib_ksmt.c')
    src = open(KANI_LIB_C).read()
    pat = re.compile(r'__KANI_assert\(__CPROVER_OBJECT_SIZE\(ptr\) == size,\s*"[^"]*"\);')
    if not pat.search(src):
        raise RuntimeError('kani_lib.c: __rust_dealloc object-size check not found (Kani version changed?)')
    new = pat.sub('/* object-size check removed by ksmt, see engine.kani_lib_c */', src)
    if not os.path.exists(dst) or open(dst).read() != new:
        os.makedirs(BUILD, exist_ok=True)
        tmp = dst + f'.{os.getpid()}'
        open(tmp, 'w').write(new)
        os.replace(tmp, dst)
    return dst


def make_goto(symtab, mangled, out):
    steps = [
        f'goto-cc {symtab} {KANI_LIB_C} {MODELS_C} -o {out}',
        f'goto-cc {out} --function {mangled} -o {out}',
        f'goto-instrument --add-library --no-malloc-may-fail {out} {out}',
        f'goto-instrument --generate-function-body-options assert-false-assume-false --generate-function-body ".*" --drop-unused-functions {out} {out}',
        f'goto-instrument --ensure-one-backedge-per-target {out} {out}',
    ]
    tot = 0.0
    for s in steps:
        rc, o, secs = sh(s, timeout=600)
        tot += secs
        if rc != 0:
            raise RuntimeError(f'goto pipeline failed: {s}\n{o[-2000:]}')
    return tot


# no --pointer-check: CBMC's SMT back end models dynamic-object sizes unreliably (measured: spurious
# violations of ptr::copy's in-bounds checks and infeasible paths after realloc), so memory-safety VCs are
# not part of any claim here; Rust's own bounds checks and panics are explicit assertions in the program.
CBMC_FLAGS = ('--no-standard-checks --bounds-check --pointer-check --div-by-zero-check --undefined-shift-check '
              '--unwinding-assertions --object-bits 16 --slice-formula')


def dump_smt(goto, unwind, smt, timeout, unwinding_assertions=True):
    flags = CBMC_FLAGS if unwinding_assertions else CBMC_FLAGS.replace('--unwinding-assertions', '--no-unwinding-assertions')
    cmd = f'cbmc {goto} --unwind {unwind} {flags} --smt2 --fpa --outfile {smt}'
    if os.path.exists(smt):
        os.remove(smt)
    rc, out, secs = sh(cmd, timeout=timeout)
    if rc not in (0, 10):
        # killed by the time or memory cap (possibly while writing the file): no verdict, not a machinery error
        return 'resource', f'cbmc ended with status {rc} after {secs:.0f} s (cap {timeout} s, {MEM_KB // 1024 // 1024} GB): ' + out[-300:], secs
    if not os.path.exists(smt):
        # no VCCs at all is also possible ("VERIFICATION SUCCESSFUL" without a solver call)
        if 'VERIFICATION SUCCESSFUL' in out:
            return 'trivial', out, secs
        return 'error', out, secs
    return 'ok', out, secs


def functions_encoded(goto):
    rc, out, _ = sh(f'goto-instrument --list-goto-functions {goto} 2>/dev/null | grep -o "^[A-Za-z_][A-Za-z0-9_:$<>., ]*" | head -0; '
                    f'cbmc {goto} --list-goto-functions 2>/dev/null', timeout=120)
    return out


# ------------------------------------------------------------------ VC splitting
MARKS = {'mark_end': 'END', 'mark_call': 'CALL', 'mark_unreach': 'UNREACH', 'fin_tol': 'TOL', 'fin_exact': 'EXACT'}


class VC:
    """parsed CBMC verification condition: preamble commands + classified disjuncts"""

    def __init__(self, path):
        text = open(path).read()
        self.size = len(text)
        # drop the get-value tail cheaply
        keep = [l for l in text.split('\n') if l and not l.startswith('(get-value') and not l.startswith(';')]
        cmds = sexpr.parse('\n'.join(keep))
        last = None
        for i, c in enumerate(cmds):
            if isinstance(c, list) and c and c[0] == 'check-sat':
                last = i
        if last is None:
            raise ValueError('no check-sat in VC')
        cmds = cmds[:last]
        # the final assert is the disjunction of negated properties
        # (CBMC may print object-size constraints after it: search backwards for the last assertion that
        # is a Boolean combination of B-literals only)
        fa = None
        for i in range(len(cmds) - 1, -1, -1):
            if cmds[i][0] == 'assert' and all(re.fullmatch(r'B\d+|or|not|and', a) for a in sexpr.atoms(cmds[i][1])):
                fa = i
                break
        if fa is None:
            raise ValueError('no property disjunction found in VC')
        body = cmds[fa][1]
        self.pre = cmds[:fa] + cmds[fa + 1:]
        if isinstance(body, list) and body and body[0] == 'or':
            disj = body[1:]
        else:
            disj = [body]
        defs = {}
        for c in self.pre:
            if c[0] == 'define-fun' and not c[2] and c[3] == 'Bool':
                defs[c[1]] = c[4]
        self.disj = []
        self.parts = {}
        for d in disj:
            # d is (not Bk) | (not (and Bk...)) | Bk with Bk := (not ...)
            lits = []
            self._collect(d, defs, lits, 0)
            tag = 'prop'
            for l in lits:
                concl = defs.get(l)
                ante = 'true'
                if isinstance(concl, list) and concl and concl[0] == '=>' and len(concl) == 3:
                    ante, concl = concl[1], concl[2]
                if len(lits) == 1:
                    self.parts[sexpr.dumps(d)] = (sexpr.dumps(ante), sexpr.dumps(concl) if concl is not None else 'true')
                for a in sexpr.atoms(concl if concl is not None else []):
                    for mk, tg in MARKS.items():
                        if mk + '::' in a:
                            tag = tg
                    # memory-safety preconditions of CBMC's memcpy/memmove models (r_ok/w_ok on dynamic
                    # objects): not part of any claim, and unreliable under the SMT back end's object-size model
                    if False and tag == 'prop' and (a.startswith('object_size.') or '__CPROVER_dead_object' in a or
                                          '__CPROVER_deallocated' in a or '__CPROVER_memory_leak' in a):
                        tag = 'MEM'
            self.disj.append((sexpr.dumps(d), tag))

    def _collect(self, d, defs, lits, depth):
        if isinstance(d, str):
            if re.fullmatch(r'B\d+', d):
                if depth < 3 and d in defs and isinstance(defs[d], list) and defs[d] and defs[d][0] in ('not', 'and'):
                    self._collect(defs[d], defs, lits, depth + 1)
                else:
                    lits.append(d)
            return
        for y in d[1:]:
            self._collect(y, defs, lits, depth)

    def inputs(self):
        """indices of the input UFs that occur"""
        res = {'f64': set(), 'u64': set(), 'out': set()}
        for c in self.pre:
            for found in _find_apps(c):
                res[found[0]].add(found[1])
        return res


def _find_apps(c):
    stack = [c]
    while stack:
        y = stack.pop()
        if isinstance(y, list):
            if len(y) == 2 and isinstance(y[0], str) and y[0].startswith(UFPFX + 'in_') or \
               (len(y) == 2 and isinstance(y[0], str) and y[0] == UFPFX + 'out_f64'):
                bits = lit_bits(y[1])
                if bits is not None:
                    kind = {'in_f64': 'f64', 'in_u64': 'u64', 'out_f64': 'out'}[y[0][len(UFPFX):]]
                    yield (kind, int(bits, 2))
                    continue
            stack.extend(y)


# ------------------------------------------------------------------ interpretation + solving
def interpret(vc, mode, axiom_sets):
    it = Interp(mode)
    lines = []
    for c in vc.pre:
        lines += it.command(c)
    lines += it.finish()
    ax = axioms_mod.instantiate(it, axiom_sets)
    it.extra_obligations = axioms_mod.obligations(it, axiom_sets)
    return it, lines + ax, ax


_QN = 0


def _solver_cmd(solver, qpath, timeout, seed, extra=()):
    if 'cvc5' in solver:
        return [solver, '--lang', 'smt2', '--produce-models', f'--tlimit={int(timeout * 1000)}', qpath]
    return [solver, f'-T:{int(timeout)}', f'smt.random_seed={seed}', f'sat.random_seed={seed}'] + list(extra) + [qpath]


def _classify(out):
    first = out.strip().split('\n')[0].strip() if out.strip() else ''
    errs = [l for l in out.split('\n') if '(error' in l and 'model is not available' not in l]
    if errs:
        # an (error line means the solver may have dropped an assertion: inconclusive
        return 'error'
    if first in ('unsat', 'sat', 'unknown'):
        return first
    if 'timeout' in out:
        return 'timeout'
    return 'error'


PORTFOLIO = 4   # set per harness by run._decide (annotation @portfolio)


def run_solver(lines, timeout, seed=0, solver=None, want=None, any_solver=False):
    """One query. First a short attempt with the primary configuration; if that is inconclusive, a portfolio
    of differently seeded / configured z3 runs in parallel (nonlinear-real and FP queries are seed-sensitive);
    the first definitive answer (sat/unsat) wins and the others are killed.
    Queries go through a file: z3 reading stdin (-in) runs in incremental mode without its preprocessing
    tactics and is dramatically weaker on nonlinear-real queries (measured).
    returns (verdict, raw_output, seconds); verdict in unsat/sat/unknown/timeout/error"""
    global _QN
    solver = solver or Z3
    t0 = time.time()
    qdir = os.path.join(BUILD, 'queries')
    os.makedirs(qdir, exist_ok=True)
    _QN += 1
    qpath = os.path.join(qdir, f'q_{os.getpid()}_{_QN}.smt2')
    open(qpath, 'w').write('\n'.join(lines) + '\n')
    # cvc5 takes part for its verdict only (its models are not parsed): it reads the query without get-value
    has_gv = any(l.startswith('(get-value') for l in lines)
    qpath_v = qpath + '.v.smt2' if has_gv else qpath
    if has_gv:
        open(qpath_v, 'w').write('\n'.join(l for l in lines if not l.startswith('(get-value')) + '\n')
    pre = ['bash', '-c', f'ulimit -v {MEM_KB}; exec "$@"', 'x']

    def race(cfgs, cap):
        # solver output goes to files: a model listing can exceed the pipe buffer and block the solver
        procs = []
        for n, (sv, sd, ex) in enumerate(cfgs):
            of = open(f'{qpath}.out{n}', 'w+')
            p = subprocess.Popen(pre + _solver_cmd(sv, qpath_v if 'cvc5' in sv else qpath, cap, sd, ex), stdout=of, stderr=subprocess.STDOUT, text=True)
            p.outfile = of
            p.verdict_only = 'cvc5' in sv and has_gv
            procs.append(p)

        def output(p):
            p.outfile.seek(0)
            o = p.outfile.read()
            p.outfile.close()
            os.remove(p.outfile.name)
            return o

        deadline = time.time() + cap + 15
        best = None
        pending = list(procs)
        while pending and time.time() < deadline:
            for p in list(pending):
                if p.poll() is not None:
                    pending.remove(p)
                    out = output(p)
                    v = _classify(out)
                    if v == 'sat' and p.verdict_only:
                        # a model is wanted and this solver's is not parsed: leave the answer to the others
                        v = 'unknown'
                    if v in ('sat', 'unsat'):
                        for q in pending:
                            q.kill()
                        for q in pending:
                            q.wait()
                            output(q)
                        return v, out
                    if best is None or (best[0] == 'error' and v != 'error'):
                        best = (v, out)
            time.sleep(0.02)
        for q in pending:
            q.kill()
            q.wait()
            output(q)
        return best if best else ('timeout', '')

    try:
        first_cap = min(timeout, 12)
        if any_solver:
            # verdict-only query (vacuity twin): z3 and cvc5 race from the start
            v, out = race([(solver, seed, ()), ('cvc5', seed, ())], first_cap)
        else:
            v, out = race([(solver, seed, ())], first_cap)
        if v not in ('sat', 'unsat', 'error') and timeout > first_cap:
            cfgs = [(Z3, seed + 1, ()), (Z3, seed + 2, ('smt.arith.nl.tangents=false',)), ('z3', seed + 3, ()),
                    (Z3, seed + 4, ('smt.arith.nl.grobner=false', 'smt.relevancy=0'))]
            if any_solver:
                cfgs = cfgs[:3]
            cfgs = cfgs[:max(1, PORTFOLIO)]
            if PORTFOLIO >= 2:
                # cvc5 decides array-heavy and congruence-heavy queries that z3 does not (measured on the shuffle
                # obligations); when a model is wanted only its `unsat` counts
                cfgs.append(('cvc5', seed, ()))
            v, out = race(cfgs, timeout)
    finally:
        for f in {qpath, qpath_v}:
            if os.path.exists(f):
                os.remove(f)
    return v, out, time.time() - t0


NINPUT = 512


def model_queries(vc, mode):
    """input UFs are queried on every index below NINPUT (indices are not always literal in the VC)"""
    ins = vc.inputs()
    decl = {c[1] for c in vc.pre if c[0] == 'declare-fun'}
    q = []
    if UFPFX + 'in_f64' in decl:
        q += [f'({UFPFX}in_f64 (_ bv{k} 32))' for k in range(NINPUT)]
    else:
        ins['f64'] = set()
    if UFPFX + 'in_u64' in decl:
        q += [f'({UFPFX}in_u64 (_ bv{k} 32))' for k in range(NINPUT)]
    else:
        ins['u64'] = set()
    return ins, q


_VAL_RE = re.compile(r'\(\((\(' + re.escape(UFPFX) + r'(in_f64|in_u64|out_f64) \(_ bv(\d+) 32\)\)) ')


def parse_model(out, mode):
    """parse get-value output into {'f64': {k: value}, 'u64': {k: int}}; f64 values are
    ('bits', int) in B/U, ('real', Fraction) in R"""
    res = {'f64': {}, 'u64': {}, 'out': {}}
    try:
        forms = sexpr.parse(out[out.index('\n') + 1:])
    except Exception:
        return res
    pairs = [p for f in forms if isinstance(f, list) for p in f if isinstance(p, list) and len(p) == 2]
    for key, val in pairs:
        if not (isinstance(key, list) and isinstance(key[0], str) and key[0].startswith(UFPFX)):
            continue
        kind = key[0][len(UFPFX):]
        idx = int(lit_bits(key[1]), 2)
        if kind == 'in_u64':
            b = lit_bits(val)
            if b is not None:
                res['u64'][idx] = int(b, 2)
        else:
            v = _float_value(val, mode)
            if v is not None:
                res['f64' if kind == 'in_f64' else 'out'][idx] = v
    return res


def _float_value(val, mode):
    from fractions import Fraction
    if mode == 'U':
        b = lit_bits(val)
        return ('bits', int(b, 2)) if b is not None else None
    if mode == 'B':
        if isinstance(val, list) and val and val[0] == 'fp':
            bits = lit_bits(val[1]) + lit_bits(val[2]) + lit_bits(val[3])
            return ('bits', int(bits, 2))
        if isinstance(val, list) and val and val[0] == '_':
            eb, sb = int(val[2]), int(val[3])
            bits = {'+oo': '0' + '1' * eb + '0' * (sb - 1), '-oo': '1' + '1' * eb + '0' * (sb - 1),
                    'NaN': '0' + '1' * eb + '1' + '0' * (sb - 2), '+zero': '0' * (eb + sb),
                    '-zero': '1' + '0' * (eb + sb - 1)}.get(val[1])
            return ('bits', int(bits, 2)) if bits else None
        return None
    # R: numerals, decimals, (/ a b), (- x), root-obj (algebraic) -> approximate
    try:
        return ('real', _real(val))
    except Exception:
        return None


def _real(v):
    from fractions import Fraction
    if isinstance(v, str):
        if v.endswith('?'):
            v = v[:-1]
        return Fraction(v)
    if v[0] == '-' and len(v) == 2:
        return -_real(v[1])
    if v[0] == '/':
        return _real(v[1]) / _real(v[2])
    if v[0] == '+':
        return sum(_real(x) for x in v[1:])
    if v[0] == '*':
        r = Fraction(1)
        for x in v[1:]:
            r *= _real(x)
        return r
    raise ValueError('unparsed real ' + str(v))
