"""Minimal s-expression reader/writer for SMT-LIB2 as printed by CBMC (`--smt2 --outfile`)."""
import re

_TOK = re.compile(r'\|[^|]*\||\(|\)|"(?:[^"]|"")*"|;[^\n]*|[^\s()|";]+')


def parse(text):
    """Parse a string into a list of top-level forms. Atoms are str, lists are Python lists."""
    stack = [[]]
    for m in _TOK.finditer(text):
        t = m.group(0)
        c = t[0]
        if c == ';':
            continue
        if c == '(':
            stack.append([])
        elif c == ')':
            x = stack.pop()
            stack[-1].append(x)
        else:
            stack[-1].append(t)
    if len(stack) != 1:
        raise ValueError("unbalanced s-expression")
    return stack[0]


def dumps(x):
    out = []
    _dump(x, out)
    return ''.join(out)


def _dump(x, out):
    # iterative to survive deep terms
    stack = [x]
    while stack:
        y = stack.pop()
        if isinstance(y, str):
            out.append(y)
        elif y is None:
            out.append(' ')
        else:
            out.append('(')
            stack.append(')')
            for i in range(len(y) - 1, -1, -1):
                stack.append(y[i])
                if i:
                    stack.append(None)
    return out


def atoms(x):
    """Iterate over all atoms of a term."""
    stack = [x]
    while stack:
        y = stack.pop()
        if isinstance(y, str):
            yield y
        else:
            stack.extend(y)
