"""Arithmetic interpretations of a CBMC `--smt2 --fpa` verification condition.

One symbolic execution (CBMC's), three readings of the float operations (DESIGN.md §2.1):

  B  bit-precise   FloatingPoint stays FloatingPoint; named libm UFs with an exact SMT-LIB
                   counterpart (sqrt, fabs, floor, ceil, trunc, round, rint, fmin, fmax, fma)
                   are mapped to it; the rest stay uninterpreted.
  U  uninterpreted floats are opaque 64/32-bit patterns; every float operation is an
                   uninterpreted function on them (neg/abs are the exact sign-bit operations).
  R  real          floats are reals, rounding is the identity; sqrt/exp/log/... are uninterpreted
                   functions over the reals constrained by instantiated axioms.

The rewriter also repairs what CBMC's FPA back end prints ill-sorted (bit-vector operators applied
directly to float terms) by inserting float<->bits glue.
"""
from fractions import Fraction
from .sexpr import dumps

FP_PREDS = {'fp.eq', 'fp.lt', 'fp.leq', 'fp.gt', 'fp.geq', 'fp.isNaN', 'fp.isInfinite', 'fp.isNormal',
            'fp.isZero', 'fp.isNegative', 'fp.isPositive', 'fp.isSubnormal'}
FP_RM_OPS = {'fp.add', 'fp.sub', 'fp.mul', 'fp.div', 'fp.sqrt', 'fp.roundToIntegral', 'fp.fma'}
FP_NORM_OPS = {'fp.neg', 'fp.abs', 'fp.min', 'fp.max', 'fp.rem'}
RMS = {'roundNearestTiesToEven': 'RNE', 'RNE': 'RNE', 'roundNearestTiesToAway': 'RNA', 'RNA': 'RNA',
       'roundTowardPositive': 'RTP', 'RTP': 'RTP', 'roundTowardNegative': 'RTN', 'RTN': 'RTN',
       'roundTowardZero': 'RTZ', 'RTZ': 'RTZ'}
BOOL_HEADS = {'=', 'and', 'or', 'not', '=>', 'distinct', 'xor', 'bvult', 'bvule', 'bvugt', 'bvuge',
              'bvslt', 'bvsle', 'bvsgt', 'bvsge', '<', '<=', '>', '>='}
BV_ARG_HEADS = {'concat', 'bvand', 'bvor', 'bvxor', 'bvnot', 'bvneg', 'bvadd', 'bvsub', 'bvmul', 'bvudiv',
                'bvurem', 'bvsdiv', 'bvsrem', 'bvsmod', 'bvshl', 'bvlshr', 'bvashr', 'bvult', 'bvule',
                'bvugt', 'bvuge', 'bvslt', 'bvsle', 'bvsgt', 'bvsge', 'bvcomp'}
UFPFX = '__CPROVER_uninterpreted_'
# libm names with an exact SMT-LIB FloatingPoint counterpart (B mode)
B_EXACT = {
    'sqrt': lambda a: ['fp.sqrt', 'roundNearestTiesToEven', a[0]],
    'fabs': lambda a: ['fp.abs', a[0]],
    'floor': lambda a: ['fp.roundToIntegral', 'roundTowardNegative', a[0]],
    'ceil': lambda a: ['fp.roundToIntegral', 'roundTowardPositive', a[0]],
    'trunc': lambda a: ['fp.roundToIntegral', 'roundTowardZero', a[0]],
    'round': lambda a: ['fp.roundToIntegral', 'roundNearestTiesToAway', a[0]],
    'rint': lambda a: ['fp.roundToIntegral', 'roundNearestTiesToEven', a[0]],
    'nearbyint': lambda a: ['fp.roundToIntegral', 'roundNearestTiesToEven', a[0]],
    'fma': lambda a: ['fp.fma', 'roundNearestTiesToEven', a[0], a[1], a[2]],
}


def passthrough(nm):
    """harness-level uninterpreted functions keep their (sort-mapped) declaration in every mode"""
    return nm in ('in_f64', 'in_u64', 'marker', 'out_f64') or nm.startswith('h_')


def BV(n):
    return ['_', 'BitVec', str(n)]


def fpw(s):
    """(eb, sb) for a FloatingPoint sort, else None."""
    if isinstance(s, list) and len(s) == 4 and s[0] == '_' and s[1] == 'FloatingPoint':
        return int(s[2]), int(s[3])
    return None


def bvw(s):
    if isinstance(s, list) and len(s) == 3 and s[0] == '_' and s[1] == 'BitVec':
        return int(s[2])
    return None


def lit_bits(a):
    """bit string of a #b / #x / (_ bvN w) literal, else None"""
    if isinstance(a, str):
        if a.startswith('#b'):
            return a[2:]
        if a.startswith('#x'):
            return bin(int(a[2:], 16))[2:].zfill(4 * (len(a) - 2))
        return None
    if isinstance(a, list) and len(a) == 3 and a[0] == '_' and isinstance(a[1], str) and a[1].startswith('bv') and a[1][2:].isdigit():
        return bin(int(a[1][2:]))[2:].zfill(int(a[2]))
    return None


def fp_value(sbits, ebits, mbits):
    """exact rational value of an fp literal, or 'inf'/'-inf'/'nan'"""
    eb, mb = len(ebits), len(mbits)
    s, e, m = int(sbits, 2), int(ebits, 2), int(mbits, 2)
    bias = (1 << (eb - 1)) - 1
    if e == (1 << eb) - 1:
        if m:
            return 'nan'
        return '-inf' if s else 'inf'
    if e == 0:
        v = Fraction(m, 1 << mb) * Fraction(2) ** (1 - bias)
    else:
        v = (1 + Fraction(m, 1 << mb)) * Fraction(2) ** (e - bias)
    return -v if s else v


def real_lit(v):
    n, d = v.numerator, v.denominator
    s = f'{abs(n)}.0' if d == 1 else f'(/ {abs(n)}.0 {d}.0)'
    return f'(- {s})' if n < 0 else s


def bits_value_real(bits):
    """real literal (string) for an IEEE bit pattern of width 64 or 32"""
    w = len(bits)
    eb = 11 if w == 64 else 8
    v = fp_value(bits[0], bits[1:1 + eb], bits[1 + eb:])
    if v == 'inf':
        return 'r_inf'
    if v == '-inf':
        return '(- r_inf)'
    if v == 'nan':
        return 'r_nan'
    return real_lit(v)


class Interp:
    def __init__(self, mode):
        assert mode in ('B', 'U', 'R')
        self.mode = mode
        self.symsort = {}      # constant symbol -> original sort
        self.funret = {}       # function symbol -> original result sort
        self.funargs = {}
        self.out = []          # output lines
        self.pending = []      # lines to emit before the current command (glue)
        self.nglue = 0
        self.ufdecl = {}       # lazily declared helper UFs: name -> decl line
        self.lits = set()      # (width, bits) literals needing b2r axioms (R)
        self.apps = {}         # libm UF name -> list of closed rewritten argument tuples (R/U axioms)
        self.stats = {'fp_ops': 0, 'glue': 0}
        self.ulits = set()     # float literals compared against in U mode

    # ---------------------------------------------------------------- sorts
    def sort(self, s):
        w = fpw(s)
        if w:
            if self.mode == 'R':
                return 'Real'
            if self.mode == 'U':
                return BV(w[0] + w[1])
            return s
        if isinstance(s, list):
            return [self.sort(y) for y in s]
        return s

    def sort_of(self, t, env):
        if isinstance(t, str):
            if t in env:
                return env[t][0]
            if t in self.symsort:
                return self.symsort[t]
            if t.startswith('#b'):
                return BV(len(t) - 2)
            if t.startswith('#x'):
                return BV(4 * (len(t) - 2))
            if t in ('true', 'false'):
                return 'Bool'
            if t in RMS:
                return 'RoundingMode'
            return None
        if not t:
            return None
        h = t[0]
        if isinstance(h, list):
            if h and h[0] == '_':
                k = h[1]
                if k in ('to_fp', 'to_fp_unsigned'):
                    return ['_', 'FloatingPoint', h[2], h[3]]
                if k == 'extract':
                    return BV(int(h[2]) - int(h[3]) + 1)
                if k in ('fp.to_sbv', 'fp.to_ubv'):
                    return BV(int(h[2]))
                if k in ('zero_extend', 'sign_extend'):
                    w = bvw(self.sort_of(t[1], env))
                    return BV(w + int(h[2])) if w is not None else None
                if k == 'repeat':
                    w = bvw(self.sort_of(t[1], env))
                    return BV(w * int(h[2])) if w is not None else None
                if k in ('rotate_left', 'rotate_right'):
                    return self.sort_of(t[1], env)
            if h and h[0] == 'as':
                return h[2]
            return None
        if h == '_':
            if t[1].startswith('bv'):
                return BV(int(t[2]))
            if t[1] in ('+oo', '-oo', 'NaN', '+zero', '-zero'):
                return ['_', 'FloatingPoint', t[2], t[3]]
            return None
        if h == 'fp':
            e, m = lit_bits(t[2]), lit_bits(t[3])
            if e is not None and m is not None:
                return ['_', 'FloatingPoint', str(len(e)), str(len(m) + 1)]
            return None
        if h in FP_RM_OPS:
            return self.sort_of(t[2], env)
        if h in FP_NORM_OPS:
            return self.sort_of(t[1], env)
        if h in FP_PREDS or h in BOOL_HEADS:
            return 'Bool'
        if h == 'ite':
            return self.sort_of(t[2], env) or self.sort_of(t[3], env)
        if h == 'let':
            env2 = dict(env)
            for v, e in t[1]:
                env2[v] = (self.sort_of(e, env), None)
            return self.sort_of(t[2], env2)
        if h == 'select':
            s = self.sort_of(t[1], env)
            return s[2] if isinstance(s, list) and len(s) == 3 and s[0] == 'Array' else None
        if h == 'store':
            return self.sort_of(t[1], env)
        if h == 'concat':
            tot = 0
            for y in t[1:]:
                s = self.sort_of(y, env)
                w = bvw(s)
                if w is None:
                    f = fpw(s)
                    if f is None:
                        return None
                    w = f[0] + f[1]
                tot += w
            return BV(tot)
        if h == 'bvcomp':
            return BV(1)
        if h.startswith('bv'):
            return self.sort_of(t[1], env)
        if h in self.funret:
            return self.funret[h]
        return None

    def is_fp(self, t, env):
        return fpw(self.sort_of(t, env))

    # ------------------------------------------------------------- helpers
    def uf(self, name, argsorts, ret):
        if name not in self.ufdecl:
            self.ufdecl[name] = f'(declare-fun {name} ({" ".join(dumps(a) for a in argsorts)}) {dumps(ret)})'
            self.pending.append(self.ufdecl[name])
        return name

    def close(self, t, env):
        """substitute let-bound variables by their (rewritten) definitions so that t is closed"""
        if isinstance(t, str):
            if t in env and env[t][1] is not None:
                return self.close(env[t][1], env[t][2])
            return t
        return [self.close(y, env) for y in t]

    def fp2bv(self, t, w, env):
        """bits of the (already rewritten) float term t of width (eb,sb); t's free let-vars are in env"""
        W = w[0] + w[1]
        if self.mode == 'U':
            return t
        self.stats['glue'] += 1
        ct = self.close(t, env)
        if self.mode == 'R':
            f = self.uf(f'r2b{W}', ['Real'], BV(W))
            self.uf(f'b2r{W}', [BV(W)], 'Real')
            self.pending.append(f'(assert (= (b2r{W} ({f} {dumps(ct)})) {dumps(ct)}))')
            return [f, t]
        # B: float -> bits as a function (same float, same bits) with to_fp(f2b(x)) = x at each use
        f = self.uf(f'f2b{W}', [['_', 'FloatingPoint', str(w[0]), str(w[1])]], BV(W))
        self.pending.append(f'(assert (= ((_ to_fp {w[0]} {w[1]}) ({f} {dumps(ct)})) {dumps(ct)}))')
        return [f, t]

    def bvarg(self, y, env):
        """rewrite y for use as an argument of a bit-vector operator"""
        w = self.is_fp(y, env)
        if not w:
            return self.term(y, env)
        # literal floats become literal bits
        if isinstance(y, list) and y and y[0] == 'fp' and self.mode != 'U':
            s, e, m = lit_bits(y[1]), lit_bits(y[2]), lit_bits(y[3])
            if s is not None and e is not None and m is not None:
                bits = s + e + m
                if self.mode == 'R':
                    self.lits.add(bits)
                return '#b' + bits
        return self.fp2bv(self.term(y, env), w, env)

    def int2real(self, x, W, signed):
        n = ['bv2nat', x]
        if not signed:
            return ['to_real', n]
        zero = '#b' + '0' * W
        return ['to_real', ['ite', ['bvslt', x, zero], ['-', n, str(1 << W)], n]]

    # --------------------------------------------------------------- terms
    def term(self, t, env):
        m = self.mode
        if isinstance(t, str):
            return t
        if not t:
            return t
        h = t[0]
        # ---- indexed heads
        if isinstance(h, list):
            if h and h[0] == '_':
                k = h[1]
                if k == 'to_fp':
                    tw = (int(h[2]), int(h[3]))
                    W = tw[0] + tw[1]
                    if len(t) == 2:
                        x = self.term(t[1], env)
                        if m == 'B':
                            return [h, x]
                        if m == 'U':
                            return x
                        bits = lit_bits(x)
                        if bits is not None and len(bits) == W:
                            return bits_value_real(bits)
                        self.uf(f'b2r{W}', [BV(W)], 'Real')
                        return [f'b2r{W}', x]
                    rm, x = t[1], t[2]
                    sw = self.is_fp(x, env)
                    if sw:
                        xr = self.term(x, env)
                        if m == 'B':
                            return [h, rm, xr]
                        if m == 'R':
                            return xr
                        if sw == tw:
                            return xr
                        f = self.uf(f'u.cvt_{sw[0]+sw[1]}_{W}', [BV(sw[0] + sw[1])], BV(W))
                        return [f, xr]
                    xs = self.sort_of(x, env)
                    xw = bvw(xs)
                    xr = self.term(x, env)
                    if m == 'B' or xw is None:
                        if xw is None and m != 'B':
                            raise ValueError('to_fp from unknown sort: ' + dumps(t)[:200])
                        return [h, rm, xr]
                    if m == 'R':
                        return self.int2real(xr, xw, True)
                    f = self.uf(f'u.s2f_{xw}_{W}', [BV(xw)], BV(W))
                    return [f, xr]
                if k == 'to_fp_unsigned':
                    tw = (int(h[2]), int(h[3]))
                    W = tw[0] + tw[1]
                    x = t[2]
                    xw = bvw(self.sort_of(x, env))
                    xr = self.term(x, env)
                    if m == 'B':
                        return [h, t[1], xr]
                    if m == 'R':
                        return self.int2real(xr, xw, False)
                    f = self.uf(f'u.u2f_{xw}_{W}', [BV(xw)], BV(W))
                    return [f, xr]
                if k in ('fp.to_sbv', 'fp.to_ubv'):
                    W = int(h[2])
                    x = t[2]
                    sw = self.is_fp(x, env)
                    xr = self.term(x, env)
                    if m == 'B':
                        return [h, t[1], xr]
                    if m == 'R':
                        # Rust `as` conversions round toward zero. Small magnitudes (sizes, counts, indices)
                        # are spelled out as a comparison chain, which linear arithmetic decides; the general
                        # case falls back to int2bv(trunc(x)), which solvers handle poorly.
                        self.uf_rtz()
                        fallback = [['_', 'int2bv', str(W)], ['r_rtz', xr]]
                        def lit(n):
                            return '#b' + bin(n & ((1 << W) - 1))[2:].zfill(W)
                        chain = fallback
                        for n in range(40, -1, -1):
                            chain = ['ite', ['and', ['>=', xr, f'{n}.0'], ['<', xr, f'{n + 1}.0']], lit(n), chain]
                        if k == 'fp.to_sbv':
                            for n in range(1, 41):
                                chain = ['ite', ['and', ['<=', xr, f'(- {n}.0)'], ['>', xr, f'(- {n + 1}.0)']], lit(-n), chain]
                            chain = ['ite', ['and', ['>', xr, '(- 1.0)'], ['<', xr, '0.0']], lit(0), chain]
                        return chain
                    f = self.uf(f'u.{k[6:]}_{sw[0]+sw[1]}_{W}', [BV(sw[0] + sw[1])], BV(W))
                    return [f, xr]
                if k in ('extract', 'zero_extend', 'sign_extend', 'repeat', 'rotate_left', 'rotate_right'):
                    return [h] + [self.bvarg(y, env) for y in t[1:]]
            return [self.term(y, env) for y in t]
        # ---- plain heads
        if h == 'let':
            env2 = dict(env)
            binds = []
            for v, e in t[1]:
                er = self.term(e, env)
                binds.append([v, er])
                env2[v] = (self.sort_of(e, env), er, env)
            body = self.term(t[2], env2)
            # CBMC 6.11's SMT back end prints an arithmetic-with-overflow result {result, overflowed} as
            # (concat result flag) but reads the fields back as if the first member sat in the low bits
            # (extract w-1..0 = result, bit w = flag). Put the flag on top so that both reads are right.
            if (len(binds) == 1 and isinstance(body, list) and len(body) == 3 and body[0] == 'concat'
                    and isinstance(body[2], list) and len(body[2]) == 4 and body[2][0] == 'ite'
                    and body[2][2] == '#b1' and body[2][3] == '#b0'
                    and isinstance(body[1], list) and len(body[1]) == 2 and isinstance(body[1][0], list)
                    and body[1][0][:2] == ['_', 'extract'] and body[1][0][3] == '0' and body[1][1] == binds[0][0]):
                body = ['concat', body[2], body[1]]
                self.stats['overflow_result_fixed'] = self.stats.get('overflow_result_fixed', 0) + 1
            return ['let', binds, body]
        if h == '_':
            if t[1] in ('+oo', '-oo', 'NaN', '+zero', '-zero') and m != 'B':
                eb, sb = int(t[2]), int(t[3])
                bits = {'+oo': '0' + '1' * eb + '0' * (sb - 1), '-oo': '1' + '1' * eb + '0' * (sb - 1),
                        'NaN': '0' + '1' * eb + '1' + '0' * (sb - 2), '+zero': '0' * (eb + sb),
                        '-zero': '1' + '0' * (eb + sb - 1)}[t[1]]
                return '#b' + bits if m == 'U' else bits_value_real(bits)
            return t
        if h == 'fp' and len(t) == 4:
            if m == 'B':
                return t
            s, e, mm = lit_bits(t[1]), lit_bits(t[2]), lit_bits(t[3])
            if s is None or e is None or mm is None:
                raise ValueError('non-literal fp constructor: ' + dumps(t)[:200])
            bits = s + e + mm
            if m == 'R' and len(bits) in (32, 64):
                self.lits.add(bits)
            return '#b' + bits if m == 'U' else bits_value_real(bits)
        if h in FP_RM_OPS or h in FP_NORM_OPS or h in FP_PREDS:
            return self.fpop(h, t, env)
        if h in BV_ARG_HEADS:
            return [h] + [self.bvarg(y, env) for y in t[1:]]
        if h in ('=', 'distinct') and len(t) == 3:
            # CBMC may equate a float term with a bit-vector term
            wa, wb = self.is_fp(t[1], env), self.is_fp(t[2], env)
            if bool(wa) != bool(wb):
                sa, sb_ = self.sort_of(t[1], env), self.sort_of(t[2], env)
                if bvw(sa) is not None or bvw(sb_) is not None:
                    return [h, self.bvarg(t[1], env), self.bvarg(t[2], env)]
            return [h, self.term(t[1], env), self.term(t[2], env)]
        if h.startswith(UFPFX) and not passthrough(h[len(UFPFX):]):
            return self.libm(h[len(UFPFX):], t, env)
        if isinstance(h, str) and h.startswith(UFPFX + 'h_') and self.mode == 'R':
            a = [self.term(y, env) for y in t[1:]]
            self.apps.setdefault(h[len(UFPFX):], []).append(tuple(dumps(self.close(x, env)) for x in a))
            return [h] + a
        return [h] + [self.term(y, env) for y in t[1:]]

    def uf_rtz(self):
        if 'r_rtz' not in self.ufdecl:
            self.ufdecl['r_rtz'] = '(define-fun r_rtz ((x Real)) Int (ite (>= x 0.0) (to_int x) (- (to_int (- x)))))'
            self.pending.append(self.ufdecl['r_rtz'])

    def fpop(self, h, t, env):
        m = self.mode
        self.stats['fp_ops'] += 1
        if m == 'B':
            return [h] + [self.term(y, env) for y in t[1:]]
        if h in FP_RM_OPS:
            args = t[2:]
        else:
            args = t[1:]
        w = self.is_fp(args[0], env)
        if w is None:
            raise ValueError('float operator on non-float: ' + dumps(t)[:200])
        W = w[0] + w[1]
        a = [self.term(y, env) for y in args]
        if m == 'R':
            if h in ('fp.add', 'fp.sub', 'fp.mul', 'fp.div'):
                return [{'fp.add': '+', 'fp.sub': '-', 'fp.mul': '*', 'fp.div': '/'}[h], a[0], a[1]]
            if h == 'fp.neg':
                return ['-', a[0]]
            if h == 'fp.abs':
                return ['ite', ['>=', a[0], '0.0'], a[0], ['-', a[0]]]
            if h == 'fp.min':
                return self.rminmax('<=', a)
            if h == 'fp.max':
                return self.rminmax('>=', a)
            if h in ('fp.eq', 'fp.lt', 'fp.leq', 'fp.gt', 'fp.geq'):
                return [{'fp.eq': '=', 'fp.lt': '<', 'fp.leq': '<=', 'fp.gt': '>', 'fp.geq': '>='}[h], a[0], a[1]]
            if h == 'fp.isNaN':
                return ['=', a[0], 'r_nan']
            if h == 'fp.isInfinite':
                return ['and', ['or', ['>=', a[0], 'r_inf'], ['<=', a[0], ['-', 'r_inf']]], ['not', ['=', a[0], 'r_nan']]]
            if h == 'fp.isSubnormal':
                return 'false'
            if h == 'fp.isNormal':
                return ['not', ['=', a[0], '0.0']]
            if h == 'fp.isZero':
                return ['=', a[0], '0.0']
            if h == 'fp.isNegative':
                return ['<', a[0], '0.0']
            if h == 'fp.isPositive':
                return ['>', a[0], '0.0']
            if h == 'fp.sqrt':
                return self.rfun('sqrt', a, env)
            if h == 'fp.roundToIntegral':
                rm = RMS.get(t[1], 'RNE')
                return self.rround(rm, a[0])
            if h == 'fp.fma':
                return ['+', ['*', a[0], a[1]], a[2]]
            if h == 'fp.rem':
                return self.rfun('fmod', a, env)
            raise ValueError('unhandled fp op ' + h)
        # U
        if h == 'fp.neg':
            return ['bvxor', a[0], '#b1' + '0' * (W - 1)]
        if h == 'fp.abs':
            return ['bvand', a[0], '#b0' + '1' * (W - 1)]
        if h == 'fp.gt':
            h, a = 'fp.lt', [a[1], a[0]]
        elif h == 'fp.geq':
            h, a = 'fp.leq', [a[1], a[0]]
        if h in FP_PREDS:
            for x in a:
                if isinstance(x, str) and x.startswith('#b') and len(x) == W + 2:
                    self.ulits.add(x[2:])
        name = 'u.' + h[3:] + str(W)
        if h == 'fp.roundToIntegral':
            name = 'u.rti_' + RMS.get(t[1], 'RNE') + str(W)
        if h in FP_PREDS and W in (32, 64):
            # comparisons and classifications are exact functions of the bit patterns (IEEE 754): only the
            # arithmetic is uninterpreted in U. Models then carry real float values for every compared input.
            self.upred(h, W)
            return [name] + a
        ret = 'Bool' if h in FP_PREDS else BV(W)
        self.uf(name, [BV(W)] * len(a), ret)
        return [name] + a

    def upred(self, h, W):
        name = 'u.' + h[3:] + str(W)
        if name in self.ufdecl:
            return
        E = 11 if W == 64 else 8
        M = W - 1 - E
        ones = '#b' + '1' * E
        def ex(x): return f'((_ extract {W - 2} {M}) {x})'
        def mt(x): return f'((_ extract {M - 1} 0) {x})'
        def mag(x): return f'((_ extract {W - 2} 0) {x})'
        def sg(x): return f'(= ((_ extract {W - 1} {W - 1}) {x}) #b1)'
        def nan(x): return f'(and (= {ex(x)} {ones}) (not (= {mt(x)} #b{"0" * M})))'
        def zero(x): return f'(= {mag(x)} #b{"0" * (W - 1)})'
        eq = f'(and (not {nan("x")}) (not {nan("y")}) (or (= x y) (and {zero("x")} {zero("y")})))'
        lt = (f'(and (not {nan("x")}) (not {nan("y")}) (not (and {zero("x")} {zero("y")})) '
              f'(ite {sg("x")} (ite {sg("y")} (bvugt {mag("x")} {mag("y")}) true) (ite {sg("y")} false (bvult {mag("x")} {mag("y")}))))')
        body = {
            'fp.eq': eq, 'fp.lt': lt, 'fp.leq': f'(or {lt} {eq})',
            'fp.isNaN': nan('x'),
            'fp.isInfinite': f'(and (= {ex("x")} {ones}) (= {mt("x")} #b{"0" * M}))',
            'fp.isZero': zero('x'),
            'fp.isNegative': f'(and {sg("x")} (not {nan("x")}))',
            'fp.isPositive': f'(and (not {sg("x")}) (not {nan("x")}))',
            'fp.isNormal': f'(and (not (= {ex("x")} {ones})) (not (= {ex("x")} #b{"0" * E})))',
            'fp.isSubnormal': f'(and (= {ex("x")} #b{"0" * E}) (not (= {mt("x")} #b{"0" * M})))',
        }[h]
        args = f'((x (_ BitVec {W})) (y (_ BitVec {W})))' if h in ('fp.eq', 'fp.lt', 'fp.leq') else f'((x (_ BitVec {W})))'
        self.ufdecl[name] = f'(define-fun {name} {args} Bool {body})'
        self.pending.append(self.ufdecl[name])

    def rminmax(self, cmp, a):
        # IEEE min/max ignore a NaN operand; NaN is the distinguished (otherwise unconstrained) real r_nan,
        # which a genuine counterexample can always keep away from its input values
        return ['ite', ['=', a[0], 'r_nan'], a[1], ['ite', ['=', a[1], 'r_nan'], a[0],
                ['ite', [cmp, a[0], a[1]], a[0], a[1]]]]

    def rround(self, rm, x):
        if rm == 'RTN':
            return ['to_real', ['to_int', x]]
        if rm == 'RTP':
            return ['-', ['to_real', ['to_int', ['-', x]]]]
        if rm == 'RTZ':
            self.uf_rtz()
            return ['to_real', ['r_rtz', x]]
        if rm == 'RNA':
            # half away from zero
            return ['ite', ['>=', x, '0.0'], ['to_real', ['to_int', ['+', x, '0.5']]],
                    ['-', ['to_real', ['to_int', ['+', ['-', x], '0.5']]]]]
        # RNE: ties are a measure-zero set; modelled as floor(x+1/2) with even correction
        fl = ['to_int', ['+', x, '0.5']]
        return ['to_real', ['ite', ['and', ['=', ['to_real', fl], ['+', x, '0.5']], ['=', ['mod', fl, '2'], '1']],
                            ['-', fl, '1'], fl]]

    def rfun(self, name, a, env):
        """real-valued uninterpreted function application, recorded (closed) for axiom instantiation"""
        f = 'r.' + name
        self.uf(f, ['Real'] * len(a), 'Real')
        self.apps.setdefault(name, []).append(tuple(dumps(self.close(x, env)) for x in a))
        return [f] + a

    def libm(self, name, t, env):
        m = self.mode
        args = t[1:]
        if m == 'B':
            a = [self.term(y, env) for y in args]
            if name in B_EXACT:
                return B_EXACT[name](a)
            if name == 'fmin':
                return ['fp.min', a[0], a[1]]
            if name == 'fmax':
                return ['fp.max', a[0], a[1]]
            return [t[0]] + a
        a = [self.term(y, env) for y in args]
        if m == 'R':
            if name == 'fabs':
                return ['ite', ['>=', a[0], '0.0'], a[0], ['-', a[0]]]
            if name == 'fmin':
                return self.rminmax('<=', a)
            if name == 'fmax':
                return self.rminmax('>=', a)
            if name == 'fma':
                return ['+', ['*', a[0], a[1]], a[2]]
            if name in ('floor', 'ceil', 'trunc', 'round', 'rint', 'nearbyint'):
                return self.rround({'floor': 'RTN', 'ceil': 'RTP', 'trunc': 'RTZ', 'round': 'RNA',
                                    'rint': 'RNE', 'nearbyint': 'RNE'}[name], a[0])
            if name == 'powi':
                # second argument is a C int (bit-vector); literal exponents are unfolded exactly
                bits = lit_bits(a[1])
                if bits is not None:
                    n = int(bits, 2)
                    if bits[0] == '1':
                        n -= 1 << len(bits)
                    return self.rpowi(a[0], n)
                self.uf('r.powi', ['Real', BV(32)], 'Real')
                return ['r.powi', a[0], a[1]]
            return self.rfun(name, a, env)
        # U: libm functions are UFs over bit patterns (sort-mapped declaration is emitted by command())
        if name == 'fabs':
            return ['bvand', a[0], '#b0' + '1' * 63]
        self.apps.setdefault(name, []).append(tuple(dumps(self.close(x, env)) for x in a))
        return [t[0]] + a

    def rpowi(self, x, n):
        if n == 0:
            return '1.0'
        if n < 0:
            return ['/', '1.0', self.rpowi(x, -n)]
        if n > 16:
            self.uf('r.powi', ['Real', BV(32)], 'Real')
            return ['r.powi', x, '#b' + bin(n)[2:].zfill(32)]
        r = x
        for _ in range(n - 1):
            r = ['*', r, x]
        return r

    # ------------------------------------------------------------ commands
    def command(self, c):
        """returns list of output lines for one parsed command"""
        self.pending = []
        res = None
        if not isinstance(c, list) or not c:
            return []
        k = c[0]
        if k == 'set-logic':
            res = '(set-logic ALL)'
            self.pending = []
            lines = [res]
            if self.mode == 'R':
                # +inf is the first real that rounds to infinity; NaN is one fixed real far outside the
                # f64 range (a derived value can only collide with it through overflow-scale magnitudes,
                # which costs a spurious sat -> undecided, never a spurious unsat)
                lines += [f'(define-fun r_inf () Real {2 ** 1024}.0)',
                          f'(define-fun r_nan () Real (/ {3 * 2 ** 1100 + 1}.0 3.0))']
            return lines
        if k in ('get-value', 'check-sat', 'exit', 'get-model', 'set-info'):
            return []
        if k == 'set-option':
            return []
        if k == 'declare-fun':
            name, args, ret = c[1], c[2], c[3]
            if bvw(ret) == 0 or any(bvw(a) == 0 for a in args):
                return []
            if args:
                self.funret[name] = ret
                self.funargs[name] = args
                if name.startswith(UFPFX) and self.mode != 'U':
                    nm = name[len(UFPFX):]
                    if self.mode == 'R' and not passthrough(nm):
                        return []  # replaced by r.<name> / exact definitions
                    if self.mode == 'B' and (nm in B_EXACT or nm in ('fmin', 'fmax')):
                        return []
            else:
                self.symsort[name] = ret
            res = ['declare-fun', name, self.sort(args), self.sort(ret)]
        elif k == 'define-fun':
            name, args, ret, body = c[1], c[2], c[3], c[4]
            env = {}
            for a in args:
                env[a[0]] = (a[1], None)
            if args:
                self.funret[name] = ret
            else:
                self.symsort[name] = ret
            res = ['define-fun', name, self.sort(args), self.sort(ret), self.term(body, env)]
        elif k == 'assert':
            res = ['assert', self.term(c[1], {})]
        else:
            res = c
        return self.pending + [dumps(res)]

    def powi_facts(self):
        """U mode: powi with a literal exponent 2 or 3 is the repeated IEEE product the unrolled code uses
        (compiler-rt's __powidf2 performs exactly these multiplications: r = 1*x is exact, multiplication is
        commutative bit for bit); exponent 1 is the identity, exponent 0 is 1.0"""
        out = []
        one = '#b0' + '01111111111' + '0' * 52
        for args in sorted(set(self.apps.get('powi', []))):
            x, n = args
            lit = lit_bits(n) if isinstance(n, str) and n.startswith('#') else None
            if lit is None:
                m = __import__('re').fullmatch(r'\(_ bv(\d+) (\d+)\)', n)
                if m:
                    lit = bin(int(m.group(1)))[2:].zfill(int(m.group(2)))
            if lit is None:
                continue
            e = int(lit, 2)
            if lit[0] == '1':
                e -= 1 << len(lit)
            app = f'({UFPFX}powi {x} {n})'
            if e in (2, 3):
                self.uf('u.mul64', [BV(64), BV(64)], BV(64))
                sq = f'(u.mul64 {x} {x})'
                out.append(f'(assert (= {app} {sq if e == 2 else "(u.mul64 " + sq + " " + x + ")"}))')
            elif e == 1:
                out.append(f'(assert (= {app} {x}))')
        return self.pending_decls() + out

    def pending_decls(self):
        p, self.pending = self.pending, []
        return [l for l in p if l.startswith('(declare-fun')]

    def small_int_facts(self):
        """U mode: ground IEEE facts about the integers -32..32 as doubles (exact, computed here): their
        int->float conversion, the float->int conversion back, and their order against every float literal
        the VC compares with. Lets index values that travel through an `as f64` / `as usize` round trip
        (DiscreteUniform::sample) be decided without bit-blasting the conversions."""
        import struct
        conv = [n for n in self.ufdecl if n.startswith('u.s2f_') or n.startswith('u.u2f_')]
        if not conv:
            return []
        def bits(x):
            return bin(struct.unpack('<Q', struct.pack('<d', float(x)))[0])[2:].zfill(64)
        def val(b):
            return struct.unpack('<d', struct.pack('<Q', int(b, 2)))[0]
        out = []
        ks = list(range(-32, 33))
        for name in conv:
            _, iw, fw = name.split('_')
            if fw != '64':
                continue
            iw = int(iw)
            for k in ks:
                if name.startswith('u.u2f') and k < 0:
                    continue
                lit = '#b' + bin(k & ((1 << iw) - 1))[2:].zfill(iw)
                out.append(f'(assert (= ({name} {lit}) #b{bits(k)}))')
        for name in list(self.ufdecl):
            m = name.startswith('u.sbv_64_') or name.startswith('u.ubv_64_')
            if not m:
                continue
            ow = int(name.split('_')[2])
            for k in ks:
                if name.startswith('u.ubv') and k < 0:
                    continue
                lit = '#b' + bin(k & ((1 << ow) - 1))[2:].zfill(ow)
                out.append(f'(assert (= ({name} #b{bits(k)}) {lit}))')
        lits = sorted(self.ulits | {bits(k) for k in ks})
        small = [bits(k) for k in ks]
        for pred, fn in (('u.lt64', lambda x, y: x < y), ('u.leq64', lambda x, y: x <= y), ('u.eq64', lambda x, y: x == y)):
            if pred not in self.ufdecl:
                continue
            for a in small:
                for b in lits:
                    if len(b) != 64:
                        continue
                    out.append(f'(assert (= ({pred} #b{a} #b{b}) {"true" if fn(val(a), val(b)) else "false"}))')
                    if b not in small:
                        out.append(f'(assert (= ({pred} #b{b} #b{a}) {"true" if fn(val(b), val(a)) else "false"}))')
        if 'u.isNaN64' in self.ufdecl:
            for a in small:
                out.append(f'(assert (not (u.isNaN64 #b{a})))')
        return out

    def finish(self):
        """axioms that depend on the whole file (literal values for b2r)"""
        lines = []
        if self.mode == 'U':
            lines += self.small_int_facts()
            lines += self.powi_facts()
        if self.mode == 'R' and UFPFX + 'in_f64' in self.funret:
            # R inputs are reals: none of them is the distinguished NaN value
            # and all lie in the finite f64 range
            mx = str((2 ** 53 - 1) * 2 ** 971) + '.0'
            for k in range(512):
                x = f'({UFPFX}in_f64 (_ bv{k} 32))'
                lines.append(f'(assert (and (not (= {x} r_nan)) (<= (- {mx}) {x} {mx})))')
        if self.mode == 'R':
            for W in (64, 32):
                if f'b2r{W}' in self.ufdecl:
                    self.lits.add('0' * W)
            if 'b2r64' in self.ufdecl:
                # constants that reach memory byte by byte are reassembled by the solver, not by us: give b2r64
                # its value on the usual program constants (small integers, dyadic fractions, powers of two,
                # the f64 limits) in addition to every float literal seen in the VC
                import struct
                vals = [float(k) for k in range(-32, 33)] + [k / 8.0 for k in range(-16, 17)]
                vals += [2.0 ** k for k in range(-12, 13)] + [-(2.0 ** k) for k in range(-12, 13)]
                vals += [2.220446049250313e-16, 1.7976931348623157e308, -1.7976931348623157e308, 1e-6, 1e-8, 1e-10, 0.1, 0.01]
                for x in vals:
                    self.lits.add(bin(struct.unpack('<Q', struct.pack('<d', x))[0])[2:].zfill(64))
                self.lits.add('0' + '1' * 11 + '0' * 52)
                self.lits.add('1' + '1' * 11 + '0' * 52)
                self.lits.add('1' + '0' * 63)
            for bits in sorted(self.lits):
                W = len(bits)
                if f'b2r{W}' not in self.ufdecl:
                    self.ufdecl[f'b2r{W}'] = 1
                    lines.append(f'(declare-fun b2r{W} ({dumps(BV(W))}) Real)')
                lines.append(f'(assert (= (b2r{W} #b{bits}) {bits_value_real(bits)}))')
        return lines
