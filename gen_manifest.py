#!/usr/bin/env python3
"""Regenerates MANIFEST.json from the table below (kept in one place so the manifest is always valid)."""
import json, os, sys
sys.path.insert(0, os.path.dirname(os.path.abspath(__file__)))
from ksmt import engine

TECH = ('bounded symbolic model checking of the compiled code: Kani codegen of /repo + harness -> CBMC symbolic execution '
        '(unwinding assertions) -> SMT-LIB VC -> {mode} interpretation -> z3 / cvc5 verdict over all inputs in the bound; '
        'sat models replayed natively (an obligation the solvers leave undecided is additionally replayed natively on '
        'seeded candidate inputs: a reproduced failure is reported, nothing is concluded otherwise)')
NOTE = ('Trusted: rustc/Kani 0.68 codegen, CBMC 6.11 symex + SMT encoder, ksmt interpreter (B/U/R), z3; stubs is_square, '
        'f64::abs, libm as uninterpreted functions (ksmt/models.c); bounds per obligation in evidence samples. R verdicts '
        'are algebraic (floats read as reals): they do not certify rounding, overflow or NaN behaviour.')

# property -> (claimed text, modes, design ref) ; None = not claimed (reason)
CLAIMS = {
    'C01': ('Order 1: every entry point end to end (residual A X = B over the reals). Order 2 (3 thorough): by composition - '
            'data-flow wiring of every entry point to lu_solve(lu(A)) with uninterpreted floats (U), Cholesky route / LU '
            'fallback for symmetric inputs (R), and the factorisation obligations (P A = L U per pivot outcome, L L^T = A, '
            'triangular solves) re-run in this check (R).', 'R/U', '§4 C01'),
    'C02': ('pdf / pmf = textbook formula (same uninterpreted exp, pow, ln, gamma on both sides), zero outside the support, '
            'mean and variance closed forms for the 13 univariate laws; total mass 1 for the finite discrete laws; '
            'parameter validation (R). Continuous total mass, moment integrals, normal CDF and the multivariate normal are '
            'not decided.', 'R', '§4 C02, §9'),
    'C03': ('Sub-clauses only: inverse-CDF samplers are measure-preserving images of the uniform draw (Uniform, '
            'Exponential, Gumbel, Pareto), Bernoulli threshold, degenerate parameters, bulk counts and shapes (R, RNG = '
            'symbolic stream). The law of the rejection samplers is not decided (not expressible for the solvers).',
            'R', '§4 C03, §9'),
    'C04': ('Every operator form of Vector/Matrix element-wise arithmetic and every unary map is decided per length '
            'instance with float operations uninterpreted (U): output position i is exactly that operation applied to '
            'those operands, operands unchanged, shape kept; mismatches must panic. Reductions are decided as algebraic '
            'identities (R).', 'U/B/R', '§4 C04'),
    'C05': ('matmul / matmul_blocked / xtx and all Dot-trait products are decided equal to the triple-sum definition for '
            'every shape instance up to 3x3x3, all four transpose flags, block sizes, ownership forms (R); '
            'non-conformable operands must panic.', 'R', '§4 C05'),
    'C06': ('Sub-clauses only: inverse link, variance function, link derivative and deviance of the six families equal the '
            'textbook forms (Gaussian deviance = residual sum of squares), predictions = inverse link of X beta + offset '
            '(R, exp / ln uninterpreted); a ridge-penalised Gaussian fit on a 3x2 design with symbolic responses and strength '
            'equals ridge least squares with an unpenalised intercept whenever success is reported within two iterations '
            '(compositional: the linear solver inside fit is replaced by its contract A x = b, which is C01\'s subject). '
            'Thorough tier: deviance / dispersion / standard error of a Gaussian fit (decided), one Fisher step per family '
            'and longer ridge fits (undecided). Non-Gaussian designs with more than one column, reordering invariance and '
            'NaN handling are not decided.', 'R', '§9, §8.5'),
    'C07': ('trapz exact on affine integrands and equal to the composite rule for arbitrary (uninterpreted) integrands; '
            'Romberg exact on monomials up to degree 2k-1 (k<=4) incl. positive tolerances; quad5 = 10-point Gauss-Legendre '
            'sum for arbitrary integrands plus the table moments up to degree 19; sample trapezoid = piecewise-linear '
            'integral (R).', 'R', '§4 C07'),
    'C08': ('Mean, Welford mean, variances, standard deviations, the four covariance algorithms and histogram centres are '
            'decided equal to their textbook definition for every real data vector of each instance length, with shift / '
            'scale relations (R); min/max/argmin/argmax first-occurrence semantics on finite data (R, exact for '
            'comparison-only code).', 'R', '§4 C08'),
    'C09': ('Sub-clauses only: erf odd (U), |erf| <= 1 (R), digamma recurrence (R), gamma: every power / exponential argument in '
            'range on [1/2, 171] (R + range obligations). The accuracy figures of the property are '
            'NOT decided: no semantics for the true transcendental functions is available to the solvers in this image.',
            'U/R', '§4 C09, §9'),
    'C10': ('SGD (plain, momentum, Nesterov) one step on 1-D / 2-D quadratic families equals the published rule with the '
            'analytic gradient; the reverse-mode tape gradient equals the analytic gradient (R). Adam, multi-step and '
            'Levenberg-Marquardt instances are in the thorough tier and currently undecided.', 'R', '§4 C10, §9'),
    'C11': ('Cholesky: lower-triangular, positive diagonal, L L^T = A for SPD input (orders 1-3), non-PD input rejected; '
            'LU: permutation, unit-lower |l|<=1, P A = L U per pivot outcome (orders 1-2, 3 thorough), slice and Matrix forms '
            'identical (also bit for bit with opaque floats at order 2); det = determinant polynomial; ipiv_parity = inversion parity for every permutation of length <= 5 '
            '(bit-precise); triangular / Cholesky / LU solves invert their systems (R/B).', 'R/B', '§4 C11'),
    'C12': ('Every shape pair up to 3x3 (4x4 thorough) x four operators: compatible pairs give the NumPy-broadcast result '
            'entry by entry with float operations uninterpreted (U), incompatible pairs must panic; Matrix/Vector forms.',
            'U', '§4 C12'),
    'C18': ('One inductive step per mutation (setter pair, bulk update) from an arbitrary valid object against a freshly '
            'constructed twin: density / mass at a symbolic point, mean, variance and - for closed-form samplers - the draw '
            'from the same recorded RNG stream; valid targets accepted across disjoint intervals, and by each single DiscreteUniform setter up to the one-point range the constructor accepts; invalid values rejected '
            'in setters and updates (R). Derived sampler state (Beta, ChiSquared): the object representation after any setter / '
            'update equals a fresh object\'s for every parameter (U/B, sufficient condition), with bounded same-stream draws '
            'as the necessary-side fall-back.', 'R/U/B', '§4 C18, §9'),
    'C19': ('bootstrap: count/length of resamples, every element is data[drawn index], RNG asked for an index in range, '
            'every index reachable; jackknife: exactly the leave-one-out vectors in order; shuffle / shuffle_two: output = '
            'image of the input(s) under one (common) permutation for lengths 1 and 2 and every stream (length 3: sat '
            'direction only within the cap); RNG = symbolic draws via the alea shim (U, exact float comparisons).', 'U', '§4 C19'),
    'C13': ('acovf / acf against the biased-estimator definition, evenness, acf(0)=1, |acf|<=1 (small instances), '
            'difference as inverse of cumulative sums, AR(1)/AR(2) Yule-Walker equations and intercept (AR(1) at the quick cap: '
            'undecided), multi-step forecasts = intercept + recursion on the centred history (R); a second fit on an object '
            'holding arbitrary state equals a fresh fit bit for bit (U, one inductive step).', 'R/U', '§4 C13'),
    'C14': ('fit: normal equations for degree 0 (degree 1 thorough; goes through vandermonde, xtx, invert_matrix); '
            'predict: Horner evaluation equals the polynomial for degrees 0-6; length mismatch panics (R).', 'R', '§4 C14'),
    'C15': ('One inductive step of every structural operation from an arbitrary valid state against a row-major model '
            'with opaque data (U), rejection of impossible shapes / indices (panic obligations), constructors (U/R), '
            'linspace / arange grids, rotation matrices with sin^2+cos^2=1, predicates and the opposite-sign clause (R).',
            'U/R', '§4 C15'),
    'C20': ('Scalar kernels: symmetry, value at zero distance, positivity, monotone decrease, bound by the variance with '
            'exp / pow uninterpreted + instantiated axioms; parameter validation; matrix forms equal the scalar form '
            'entry by entry for every (kernel, argument form) pair on non-square 2x3 / 3x2 point sets and the 1x1, 1x2, 2x1 instances (3x3 thorough) (R).', 'R', '§4 C20'),
    'C16': ('Knot reproduction, in-segment line membership (division-free statement), Fill/Extrapolate/Panic behaviour on '
            'both sides of the range, checked-variant rejections, for 2..6 knots; calls with 2 or 3 targets in any order return, position by position, what each target returns alone (3 and 4 knots; Fill and Panic modes quick, Extrapolate thorough) (R).', 'R', '§4 C16'),
    'C17': ('logistic range/monotonicity/reflection and logit inversion with exp/ln uninterpreted + instantiated axioms; '
            'softmax positivity, unit sum, order, shift invariance and the overflow obligation on every exp argument; '
            'Box-Cox formulas and domains (R). binom_coeff = exact C(N,k) for every k in [0,N] per concrete N (quick: N = 0, 1, 2, '
            '10, 67 and two rotating ones; thorough: every N <= 100) and for K = 0, 1 with symbolic n (bit-precise integers '
            'against a compiler-evaluated Pascal triangle).', 'R/B', '§4 C17, §9'),
}
PENDING = 'check not built yet in this round; see DESIGN.md §4 for the planned decision procedure'


def main():
    hs = engine.scan_harnesses()
    have = {h['prop'] for h in hs.values()}
    props = [json.loads(l)['id'] for l in open(os.path.join(engine.VERIF, 'properties.jsonl'))]
    checks, na = [], []
    for p in props:
        if p in CLAIMS and CLAIMS[p] and p in have:
            text, modes, ref = CLAIMS[p]
            checks.append(dict(
                property_id=p,
                quick_cmd=f'./check {p} --tier quick',
                thorough_cmd=f'./check {p} --tier thorough',
                evidence_file=f'evidence/{p}.json',
                replay_cmd_template=f'./check {p} --replay {{path}}',
                engine='ksmt',
                level_claimed=dict(category='model_checking', text=text, design_ref=ref),
                level_note=NOTE,
                technique=TECH.format(mode=modes),
            ))
        else:
            reason = NA.get(p, PENDING)
            na.append(dict(property_id=p, reason=reason))
    m = dict(
        version=1,
        setup_cmd='./setup.sh',
        hooks=dict(guard='none (no source hooks in /repo: harnesses live in the out-of-tree crate /verif/harness, cfg(kani))',
                   enable='cargo kani --only-codegen on /verif/harness with path dependency on /repo (done by ./check)',
                   baseline_off_cmd='cd /repo && cargo test --workspace --no-fail-fast --offline',
                   source_commits=[], add_only=True),
        engines=[dict(name='ksmt', path='ksmt/', serves_properties=[c['property_id'] for c in checks],
                      kind_free_text='Kani front end + CBMC symbolic execution + SMT back end with B/U/R float interpretations')],
        checks=checks,
        not_applicable=na,
        notes='All checks are solver-based (bounded); see DESIGN.md. known_findings.txt lists recorded/fixed defects.',
    )
    json.dump(m, open(os.path.join(engine.VERIF, 'MANIFEST.json'), 'w'), indent=1)
    print(f'{len(checks)} checks, {len(na)} not_applicable')


NA = {}

if __name__ == '__main__':
    main()
