#!/usr/bin/env python3
"""Regenerates MANIFEST.json from the table below (kept in one place so the manifest is always valid)."""
import json, os, sys
sys.path.insert(0, os.path.dirname(os.path.abspath(__file__)))
from ksmt import engine

TECH = ('bounded symbolic model checking of the compiled code: Kani codegen of /repo + harness -> CBMC symbolic execution '
        '(unwinding assertions) -> SMT-LIB VC -> {mode} interpretation -> z3 verdict over all inputs in the bound; '
        'sat models replayed natively')
NOTE = ('Trusted: rustc/Kani 0.68 codegen, CBMC 6.11 symex + SMT encoder, ksmt interpreter (B/U/R), z3; stubs is_square, '
        'f64::abs, libm as uninterpreted functions (ksmt/models.c); bounds per obligation in evidence samples. R verdicts '
        'are algebraic (floats read as reals): they do not certify rounding, overflow or NaN behaviour.')

# property -> (claimed text, modes, design ref) ; None = not claimed (reason)
CLAIMS = {
    'C04': ('Every operator form of Vector/Matrix element-wise arithmetic and every unary map is decided per length '
            'instance with float operations uninterpreted (U): output position i is exactly that operation applied to '
            'those operands, operands unchanged, shape kept; mismatches must panic. Reductions are decided as algebraic '
            'identities (R).', 'U/B/R', '§4 C04'),
    'C08': ('Mean, Welford mean, variances, covariances, histogram centres are decided equal to their textbook definition '
            'for every real data vector of each instance length (R); order statistics bit-precisely (B).', 'R/B', '§4 C08'),
}
PENDING = 'check not built yet in this round; see DESIGN.md §4 for the planned decision procedure'


def main():
    hs = engine.scan_harnesses()
    have = {h['prop'] for h in hs.values()}
    props = [json.loads(l)['id'] for l in open(os.path.join(engine.VERIF, 'properties.jsonl'))]
    checks, na = [], []
    for p in props:
        if p in CLAIMS and CLAIMS[p] and p in have:
            text, modes, ref = CLAIMS[p]
            checks.append(dict(
                property_id=p,
                quick_cmd=f'./check {p} --tier quick',
                thorough_cmd=f'./check {p} --tier thorough',
                evidence_file=f'evidence/{p}.json',
                replay_cmd_template=f'./check {p} --replay {{path}}',
                engine='ksmt',
                level_claimed=dict(category='model_checking', text=text, design_ref=ref),
                level_note=NOTE,
                technique=TECH.format(mode=modes),
            ))
        else:
            reason = NA.get(p, PENDING)
            na.append(dict(property_id=p, reason=reason))
    m = dict(
        version=1,
        setup_cmd='./setup.sh',
        hooks=dict(guard='none (no source hooks in /repo: harnesses live in the out-of-tree crate /verif/harness, cfg(kani))',
                   enable='cargo kani --only-codegen on /verif/harness with path dependency on /repo (done by ./check)',
                   baseline_off_cmd='cd /repo && cargo test --workspace --no-fail-fast --offline',
                   source_commits=[], add_only=True),
        engines=[dict(name='ksmt', path='ksmt/', serves_properties=[c['property_id'] for c in checks],
                      kind_free_text='Kani front end + CBMC symbolic execution + SMT back end with B/U/R float interpretations')],
        checks=checks,
        not_applicable=na,
        notes='All checks are solver-based (bounded); see DESIGN.md. known_findings.txt lists recorded/fixed defects.',
    )
    json.dump(m, open(os.path.join(engine.VERIF, 'MANIFEST.json'), 'w'), indent=1)
    print(f'{len(checks)} checks, {len(na)} not_applicable')


NA = {}

if __name__ == '__main__':
    main()
