#!/usr/bin/env python3
"""Development aid: regenerate the table of DESIGN.md section 11 from /verif/seeded/*/meta.json (prints markdown)."""
import json, glob, os
rows = []
n = caught = 0
for f in sorted(glob.glob(os.path.join(os.path.dirname(os.path.abspath(__file__)), 'seeded', '*', 'meta.json'))):
    m = json.load(open(f))
    sid = f.split('/')[-2]
    res = m.get('check_result', '')
    n += 1
    if m.get('caught_by'):
        caught += 1
        by = m['caught_by'] if isinstance(m['caught_by'], str) else ', '.join(m['caught_by'])
        out = 'caught after strengthening' if 'after strengthening' in res else ('caught' if res.startswith('caught') else res.split(':')[0])
        rows.append(f'| {sid} | {out} | {by[:150]} |')
    else:
        out = 'missed' if res.startswith('missed') else res[:60]
        why = (m.get("why_missed") or "")[:260]
        if m.get('thorough_tier'):
            why += ' — thorough tier: ' + m['thorough_tier'][:200]
        rows.append(f'| {sid} | {out} | {why} |')
print(f'<!-- {caught} of {n} caught -->')
print('| seeded change | outcome | caught by / why missed |')
print('|---|---|---|')
print('\n'.join(rows))
