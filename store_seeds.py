#!/usr/bin/env python3
"""Development aid: copy the round-2 seeded changes from the scratch worktrees into /verif/seeded/<PROP>_<n>/
with the outcome of the property's quick check on them (parsed from the seed run logs)."""
import json, os, re, shutil, sys
for p in sys.argv[1:]:
    log = open(f'/tmp/seed2run_{p}.log').read()
    conf = dict(re.findall(r'--- confirm %s (m\d): (.*)' % p, log))
    blocks = re.split(r'=== %s (m\d): rc=(\d+)' % p, log)
    res = {}
    for i in range(1, len(blocks) - 2, 3):
        m, rc, body = blocks[i], blocks[i + 1], blocks[i + 2]
        viol = sorted(set(re.findall(r'VIOLATION property=\w+ replay=\S+ harness=(\w+)', body)))
        und = sorted(set(re.findall(r'UNDECIDED property=\w+ harness=(\w+)', body)))
        res[m] = (int(rc), viol, und)
    for m in ('m1', 'm2', 'm3'):
        src = f'/tmp/seed2_{p}/out/{m}'
        if not os.path.exists(src + '/patch.diff'):
            continue
        dst = f'/verif/seeded/{p}_{m}b'
        os.makedirs(dst, exist_ok=True)
        shutil.copy(src + '/patch.diff', dst + '/patch.diff')
        shutil.copy(src + '/demo.rs', dst + '/demo.rs')
        rc, viol, und = res.get(m, (None, [], []))
        meta = dict(property=p, source='independent sub-agent given only the property text and a scratch worktree (round 2, on the repaired tree)',
                    needs=open(src + '/README.txt').read().strip()[:1200],
                    confirmed='seedconfirm.sh: ' + conf.get(m, 'n/a'),
                    ran=f'KSMT_REPO=<worktree with patch> ./check {p} (quick tier, VERIF_SEED=0)',
                    check_result='caught' if viol else ('missed (check exit %s)' % rc),
                    caught_by=', '.join(viol) if viol else None,
                    undecided_on_mutated_tree=und)
        json.dump(meta, open(dst + '/meta.json', 'w'), indent=1)
        print(p, m, meta['check_result'], meta['caught_by'])
